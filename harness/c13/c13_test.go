// C13 — blocks are tamper-evident and reassemble exactly from their parts.
//
// Files: c13_test.go (TestMain, generators, reference Merkle tree, semantic fingerprint), parts_test.go (oracle 1:
// reassembly under adversarial arrivals), roundtrip_test.go (oracle 2: wire and database encodings), tamper_test.go
// (oracle 3: single-field mutations against Hash / BlockID / validation on a real chain state), directed_test.go
// (regression + known-finding reproducers), fuzz_test.go (native fuzz targets, thorough tier).
package c13

import (
	"bytes"
	"crypto/ecdsa"
	"crypto/sha256"
	"fmt"
	"math/big"
	"os"
	"strings"
	"sync"
	"testing"
	"time"

	"github.com/gogo/protobuf/proto"
	"pgregory.net/rapid"

	"github.com/kardiachain/go-kardia/lib/common"
	"github.com/kardiachain/go-kardia/lib/crypto"
	kproto "github.com/kardiachain/go-kardia/proto/kardiachain/types"
	"github.com/kardiachain/go-kardia/trie"
	"github.com/kardiachain/go-kardia/types"

	"verifharness/internal/ev"
	"verifharness/internal/netsim"
)

func TestMain(m *testing.M) {
	worker, fuzzing := false, false
	for _, a := range os.Args {
		worker = worker || strings.HasPrefix(a, "-test.fuzzworker")
		fuzzing = fuzzing || strings.HasPrefix(a, "-test.fuzz=") || a == "-test.fuzz"
	}
	if worker {
		// fuzz workers share the coordinator's environment: keep them from overwriting its evidence file. What a
		// worker finds reaches the coordinator as a crasher file, which replayCrashers() re-judges.
		os.Unsetenv("VERIF_EV_OUT")
	}
	netsim.Quiet()
	ev.Init("C13")
	rc := m.Run()
	if fuzzing && !worker && rc != 0 {
		replayCrashers()
	}
	ev.Flush()
	os.Exit(rc)
}

const chainID = "verif" // netsim's genesis chain id; the stand-alone generators sign with the same one

func hasher() types.TrieHasher { return trie.NewStackTrie(nil) }

// ---------------------------------------------------------------- keys and the transaction pool

var (
	keyMu    sync.Mutex
	keyCache = map[int]*ecdsa.PrivateKey{}
)

func key(i int) *ecdsa.PrivateKey {
	keyMu.Lock()
	defer keyMu.Unlock()
	if k := keyCache[i]; k != nil {
		return k
	}
	k := netsim.Key(i)
	keyCache[i] = k
	return k
}

func addrOf(i int) common.Address { return crypto.PubkeyToAddress(key(i).PublicKey) }

// The transaction pool is a fixed, deterministic list of really signed transactions (signing is the expensive part of
// building a block); a generated block draws WHICH of them it carries and in which order. Payload sizes are chosen so
// that blocks range from a few hundred bytes to several parts of the real BlockPartSizeBytes.
var (
	poolOnce sync.Once
	txPool   []*types.Transaction // 0..199 small (0..300 bytes payload), 200..207 large (20..70 kB)
)

const (
	poolSmall = 200
	poolLarge = 8
)

func pool() []*types.Transaction {
	poolOnce.Do(func() {
		signer := types.HomesteadSigner{}
		x := uint32(0x9e3779b9)
		next := func() byte { // xorshift: fixed content, no randomness involved in any decision
			x ^= x << 13
			x ^= x >> 17
			x ^= x << 5
			return byte(x >> 7)
		}
		mk := func(i int, n int) *types.Transaction {
			data := make([]byte, n)
			for j := range data {
				data[j] = next()
			}
			var tx *types.Transaction
			if i%11 == 3 {
				tx = types.NewContractCreation(uint64(i), big.NewInt(int64(i)*7), 21000+uint64(i), big.NewInt(1+int64(i%5)), data)
			} else {
				tx = types.NewTransaction(uint64(i), common.BytesToAddress([]byte{byte(i), byte(i >> 8), 7}), big.NewInt(int64(i)*1000), 21000+uint64(i), big.NewInt(1+int64(i%5)), data)
			}
			stx, err := types.SignTx(signer, tx, key(100+i%2))
			if err != nil {
				panic(err)
			}
			return stx
		}
		for i := 0; i < poolSmall; i++ {
			n := []int{0, 0, 1, 4, 32, 36, 68, 100, 200, 300}[i%10]
			txPool = append(txPool, mk(i, n))
		}
		for i := 0; i < poolLarge; i++ {
			txPool = append(txPool, mk(poolSmall+i, 20000+i*7000))
		}
	})
	return txPool
}

// ---------------------------------------------------------------- reference Merkle tree (RFC 6962 shape, SHA-256)

func refLeaf(b []byte) []byte {
	h := sha256.New()
	h.Write([]byte{0})
	h.Write(b)
	return h.Sum(nil)
}

func refInner(l, r []byte) []byte {
	h := sha256.New()
	h.Write([]byte{1})
	h.Write(l)
	h.Write(r)
	return h.Sum(nil)
}

// refSplit: the largest power of two strictly smaller than n (n >= 2).
func refSplit(n int) int {
	k := 1
	for k*2 < n {
		k *= 2
	}
	return k
}

func refRoot(items [][]byte) []byte {
	switch len(items) {
	case 0:
		return nil
	case 1:
		return refLeaf(items[0])
	}
	k := refSplit(len(items))
	return refInner(refRoot(items[:k]), refRoot(items[k:]))
}

// refAunts returns the audit path of item i, leaf-side sibling first (the order go-kardia's proofs use).
func refAunts(items [][]byte, i int) [][]byte {
	if len(items) <= 1 {
		return nil
	}
	k := refSplit(len(items))
	if i < k {
		return append(refAunts(items[:k], i), refRoot(items[k:]))
	}
	return append(refAunts(items[k:], i-k), refRoot(items[:k]))
}

// refVerify recomputes the root from a leaf hash and an audit path for (index,total); nil if the path has the wrong
// length for that position.
func refVerify(index, total int, leafHash []byte, aunts [][]byte) []byte {
	if total <= 0 || index < 0 || index >= total {
		return nil
	}
	if total == 1 {
		if len(aunts) != 0 {
			return nil
		}
		return leafHash
	}
	if len(aunts) == 0 {
		return nil
	}
	k := refSplit(total)
	last := aunts[len(aunts)-1]
	if index < k {
		l := refVerify(index, k, leafHash, aunts[:len(aunts)-1])
		if l == nil {
			return nil
		}
		return refInner(l, last)
	}
	r := refVerify(index-k, total-k, leafHash, aunts[:len(aunts)-1])
	if r == nil {
		return nil
	}
	return refInner(last, r)
}

// ---------------------------------------------------------------- semantic fingerprint of a block (accessors only)

func fpTime(t time.Time) string {
	if t.IsZero() {
		return "T0"
	}
	return fmt.Sprintf("T%d.%09d", t.Unix(), t.Nanosecond())
}

func fpBlockID(id types.BlockID) string {
	return fmt.Sprintf("%x/%d/%x", id.Hash.Bytes(), id.PartsHeader.Total, id.PartsHeader.Hash.Bytes())
}

func fpHeader(h *types.Header) string {
	return fmt.Sprintf("H{h=%d t=%s ntx=%d gas=%d last=%s prop=%x lch=%x txh=%x vh=%x nvh=%x ch=%x ah=%x eh=%x}",
		h.Height, fpTime(h.Time), h.NumTxs, h.GasLimit, fpBlockID(h.LastBlockID), h.ProposerAddress.Bytes(), h.LastCommitHash.Bytes(),
		h.TxHash.Bytes(), h.ValidatorsHash.Bytes(), h.NextValidatorsHash.Bytes(), h.ConsensusHash.Bytes(), h.AppHash.Bytes(), h.EvidenceHash.Bytes())
}

func fpTx(tx *types.Transaction) string {
	v, r, s := tx.RawSignatureValues()
	to := "create"
	if a := tx.To(); a != nil {
		to = fmt.Sprintf("%x", a.Bytes())
	}
	return fmt.Sprintf("tx{%d %s %v %d %v %x %v %v %v}", tx.Nonce(), to, tx.Value(), tx.Gas(), tx.GasPrice(), tx.Data(), v, r, s)
}

func fpSig(s types.CommitSig) string {
	return fmt.Sprintf("sig{%d %x %s %x}", s.BlockIDFlag, s.ValidatorAddress.Bytes(), fpTime(s.Timestamp), s.Signature)
}

func fpVote(v *types.Vote) string {
	if v == nil {
		return "nil-vote"
	}
	return fmt.Sprintf("vote{%x #%d %d/%d/%d %s %s %x}", v.ValidatorAddress.Bytes(), v.ValidatorIndex, v.Height, v.Round, v.Type, fpTime(v.Timestamp), fpBlockID(v.BlockID), v.Signature)
}

func fpEvidence(e types.Evidence) string {
	switch d := e.(type) {
	case *types.DuplicateVoteEvidence:
		return fmt.Sprintf("dve{%s %s tot=%d pow=%d %s}", fpVote(d.VoteA), fpVote(d.VoteB), d.TotalVotingPower, d.ValidatorPower, fpTime(d.Timestamp))
	}
	return fmt.Sprintf("evidence?%T", e)
}

// fpCommitSigs is the part of a commit that Commit.Hash() (hence the header) covers; fpCommitRest is the rest.
func fpCommitSigs(c *types.Commit) string {
	if c == nil {
		return "sigs[]" // a missing commit carries no signatures, like the empty commit of the initial block
	}
	var sb strings.Builder
	sb.WriteString("sigs[")
	for _, s := range c.Signatures {
		sb.WriteString(fpSig(s))
	}
	sb.WriteString("]")
	return sb.String()
}

func fpCommitRest(c *types.Commit) string {
	if c == nil {
		return "nil-commit"
	}
	return fmt.Sprintf("commit{h=%d r=%d id=%s}", c.Height, c.Round, fpBlockID(c.BlockID))
}

func fpCommit(c *types.Commit) string { return fpCommitRest(c) + fpCommitSigs(c) }

// fpBody: header, transactions, commit signatures, evidence — everything Block.Hash() is meant to bind.
func fpBody(b *types.Block) string {
	var sb strings.Builder
	sb.WriteString(fpHeader(b.Header()))
	sb.WriteString(" txs[")
	for _, tx := range b.Transactions() {
		sb.WriteString(fpTx(tx))
	}
	sb.WriteString("] ")
	sb.WriteString(fpCommitSigs(b.LastCommit()))
	sb.WriteString(" ev[")
	if b.Evidence() != nil {
		for _, e := range b.Evidence().Evidence {
			sb.WriteString(fpEvidence(e))
		}
	}
	sb.WriteString("]")
	return sb.String()
}

// fpBlock: the full content of a block as seen through its accessors.
func fpBlock(b *types.Block) string { return fpBody(b) + " " + fpCommitRest(b.LastCommit()) }

// ---------------------------------------------------------------- wire helpers

func blockBytes(t ev.TB, b *types.Block) []byte {
	pb, err := b.ToProto()
	if err != nil {
		t.Fatalf("harness: ToProto: %v", err)
	}
	bz, err := proto.Marshal(pb)
	if err != nil {
		t.Fatalf("harness: Marshal: %v", err)
	}
	return bz
}

// fromWire is what addProposalBlockPart and the block-sync reactor do with received bytes.
func fromWire(bz []byte) (*types.Block, error) {
	pb := new(kproto.Block)
	if err := proto.Unmarshal(bz, pb); err != nil {
		return nil, err
	}
	return types.BlockFromProto(pb, hasher())
}

func blockIDOf(b *types.Block) types.BlockID {
	return types.BlockID{Hash: b.Hash(), PartsHeader: b.MakePartSet(types.BlockPartSizeBytes).Header()}
}

// ---------------------------------------------------------------- stand-alone block generator

type valInfo struct {
	keys []int // key number of the validator at each index of the set
	set  *types.ValidatorSet
}

func drawValSet(t *rapid.T) valInfo {
	n := rapid.IntRange(1, 7).Draw(t, "nvals")
	vals := make([]*types.Validator, n)
	for i := range vals {
		vals[i] = types.NewValidator(addrOf(i), int64(rapid.SampledFrom([]int{1, 10, 10, 15, 100}).Draw(t, "power")))
	}
	vs := types.NewValidatorSet(vals)
	vi := valInfo{set: vs, keys: make([]int, n)}
	for i, v := range vs.Validators {
		for k := 0; k < n; k++ {
			if addrOf(k) == v.Address {
				vi.keys[i] = k
			}
		}
	}
	return vi
}

func drawHash(t *rapid.T, label string) common.Hash {
	switch rapid.IntRange(0, 5).Draw(t, label+"-kind") {
	case 0:
		return common.Hash{}
	case 1:
		return common.BytesToHash([]byte{byte(rapid.IntRange(1, 255).Draw(t, label))}) // leading zero bytes
	default:
		return common.BytesToHash(crypto.Keccak256([]byte(fmt.Sprintf("%s-%d", label, rapid.IntRange(0, 1<<20).Draw(t, label)))))
	}
}

func drawFullBlockID(t *rapid.T, label string) types.BlockID {
	n := rapid.IntRange(0, 1<<20).Draw(t, label)
	return types.BlockID{
		Hash:        common.BytesToHash(crypto.Keccak256([]byte(fmt.Sprintf("%s-h-%d", label, n)))),
		PartsHeader: types.PartSetHeader{Total: uint32(rapid.SampledFrom([]int{1, 1, 2, 3, 7, 300}).Draw(t, label+"-total")), Hash: common.BytesToHash(crypto.Keccak256([]byte(fmt.Sprintf("%s-p-%d", label, n))))},
	}
}

func drawTime(t *rapid.T, label string) time.Time {
	sec := int64(rapid.IntRange(1, 1<<31).Draw(t, label+"-s"))
	ns := int64(rapid.SampledFrom([]int{0, 0, 1, 999, 1000000, 123456789, 999999999}).Draw(t, label+"-ns"))
	return time.Unix(sec, ns).UTC()
}

func signVote(k int, v *types.Vote) {
	pv := v.ToProto()
	if err := types.NewDefaultPrivValidator(key(k)).SignVote(chainID, pv); err != nil {
		panic(err)
	}
	v.Signature = pv.Signature
}

// drawCommit: a commit for (height, id) by the validator set, flags drawn, every non-absent entry really signed.
// When wantMaj is set, the block flags are forced so that more than 2/3 of the power signs for the block.
func drawCommit(t *rapid.T, vi valInfo, height uint64, id types.BlockID, after time.Time, wantMaj bool) *types.Commit {
	round := uint32(rapid.SampledFrom([]int{0, 0, 1, 2, 7}).Draw(t, "commit-round"))
	n := vi.set.Size()
	flags := make([]types.BlockIDFlag, n)
	for i := range flags {
		flags[i] = rapid.SampledFrom([]types.BlockIDFlag{types.BlockIDFlagCommit, types.BlockIDFlagCommit, types.BlockIDFlagCommit, types.BlockIDFlagNil, types.BlockIDFlagAbsent}).Draw(t, "flag")
	}
	if wantMaj {
		total := vi.set.TotalVotingPower()
		var have int64
		for i, f := range flags {
			if f == types.BlockIDFlagCommit {
				have += vi.set.Validators[i].VotingPower
			}
		}
		for i := range flags {
			if have*3 > total*2 {
				break
			}
			if flags[i] != types.BlockIDFlagCommit {
				flags[i] = types.BlockIDFlagCommit
				have += vi.set.Validators[i].VotingPower
			}
		}
	}
	sigs := make([]types.CommitSig, n)
	for i, f := range flags {
		if f == types.BlockIDFlagAbsent {
			sigs[i] = types.NewCommitSigAbsent()
			continue
		}
		ts := after.Add(time.Duration(rapid.IntRange(1, 5_000_000_000).Draw(t, "sig-ts")))
		v := &types.Vote{ValidatorAddress: vi.set.Validators[i].Address, ValidatorIndex: uint32(i), Height: height, Round: round, Timestamp: ts, Type: kproto.PrecommitType}
		if f == types.BlockIDFlagCommit {
			v.BlockID = id
		}
		signVote(vi.keys[i], v)
		sigs[i] = types.CommitSig{BlockIDFlag: f, ValidatorAddress: v.ValidatorAddress, Timestamp: ts, Signature: v.Signature}
	}
	return types.NewCommit(height, round, id, sigs)
}

// drawDuplicateVote: really signed conflicting votes of validator #idx of the set at (height, round).
func drawDuplicateVote(t *rapid.T, vi valInfo, height uint64, evTime time.Time) *types.DuplicateVoteEvidence {
	idx := rapid.IntRange(0, vi.set.Size()-1).Draw(t, "ev-val")
	round := uint32(rapid.IntRange(0, 3).Draw(t, "ev-round"))
	typ := rapid.SampledFrom([]kproto.SignedMsgType{kproto.PrevoteType, kproto.PrecommitType}).Draw(t, "ev-type")
	mk := func(label string, nilVote bool) *types.Vote {
		v := &types.Vote{ValidatorAddress: vi.set.Validators[idx].Address, ValidatorIndex: uint32(idx), Height: height, Round: round, Timestamp: drawTime(t, label+"-ts"), Type: typ}
		if !nilVote {
			v.BlockID = drawFullBlockID(t, label)
		}
		signVote(vi.keys[idx], v)
		return v
	}
	a := mk("ev-a", false)
	b := mk("ev-b", rapid.IntRange(0, 4).Draw(t, "ev-nil") == 0)
	if a.BlockID.Equal(b.BlockID) {
		b.BlockID.PartsHeader.Total++
		signVote(vi.keys[idx], b)
	}
	return types.NewDuplicateVoteEvidence(a, b, evTime, vi.set)
}

type genBlock struct {
	b    *types.Block
	vi   valInfo
	desc string
}

// drawTxs draws which pool transactions a block carries. shape: 0 none, 1 few, 2 up to 40, 3 more than 128 (DeriveSha's
// index ordering changes at 0x7f/0x80), 4 large payloads (several parts of the real part size).
func drawTxs(t *rapid.T) ([]*types.Transaction, string) {
	p := pool()
	shape := rapid.SampledFrom([]int{0, 1, 1, 2, 2, 2, 3, 4}).Draw(t, "tx-shape")
	var idx []int
	switch shape {
	case 1:
		idx = rapid.SliceOfN(rapid.IntRange(0, poolSmall-1), 1, 4).Draw(t, "txs")
	case 2:
		idx = rapid.SliceOfN(rapid.IntRange(0, poolSmall-1), 5, 40).Draw(t, "txs")
	case 3:
		n := rapid.IntRange(126, 135).Draw(t, "ntx")
		off := rapid.IntRange(0, poolSmall-1).Draw(t, "tx-off")
		for i := 0; i < n; i++ {
			idx = append(idx, (off+i)%poolSmall)
		}
	case 4:
		idx = rapid.SliceOfN(rapid.IntRange(poolSmall, poolSmall+poolLarge-1), 1, 4).Draw(t, "big-txs")
		idx = append(idx, rapid.SliceOfN(rapid.IntRange(0, poolSmall-1), 0, 3).Draw(t, "txs")...)
	}
	txs := make([]*types.Transaction, len(idx))
	for i, k := range idx {
		txs[i] = p[k]
	}
	return txs, fmt.Sprintf("txs%v", idx)
}

// drawBlock builds a block the way a proposer does (types.NewBlock over a header, transactions, the commit of the
// previous height and evidence), with every signature real. It is not tied to a chain state.
func drawBlock(t *rapid.T) genBlock {
	vi := drawValSet(t)
	h := uint64(rapid.SampledFrom([]int{1, 2, 2, 3, 3, 9, 255, 256, 65536, 1 << 33}).Draw(t, "height"))
	txs, txd := drawTxs(t)
	hd := &types.Header{
		Height: h, Time: drawTime(t, "time"), GasLimit: uint64(rapid.SampledFrom([]int{0, 1, 20000000, 1 << 40}).Draw(t, "gas")),
		ProposerAddress: vi.set.Validators[rapid.IntRange(0, vi.set.Size()-1).Draw(t, "proposer")].Address,
		ValidatorsHash:  vi.set.Hash(), NextValidatorsHash: vi.set.Hash(), ConsensusHash: drawHash(t, "conshash"), AppHash: drawHash(t, "apphash"),
	}
	if rapid.Bool().Draw(t, "set-changes-at-next-height") {
		// a block that announces another validator set for the next height (the two hashes then differ)
		hd.NextValidatorsHash = drawHash(t, "nextvalshash")
	}
	var commit *types.Commit
	if h == 1 {
		commit = types.NewCommit(0, 0, types.BlockID{}, nil) // what createProposalBlock uses at the initial height
	} else {
		hd.LastBlockID = drawFullBlockID(t, "last")
		commit = drawCommit(t, vi, h-1, hd.LastBlockID, hd.Time.Add(-10*time.Second), rapid.Bool().Draw(t, "maj"))
	}
	var evs []types.Evidence
	nev := rapid.SampledFrom([]int{0, 0, 1, 2}).Draw(t, "nev")
	for i := 0; i < nev; i++ {
		eh := uint64(1)
		if h > 2 {
			eh = uint64(rapid.IntRange(1, int(minU64(h-1, 1000))).Draw(t, "ev-height"))
		}
		evs = append(evs, drawDuplicateVote(t, vi, eh, drawTime(t, "ev-time")))
	}
	b := types.NewBlock(hd, txs, commit, evs, hasher())
	desc := fmt.Sprintf("block{h=%d vals=%d %s nev=%d commit=%s hdr=%s}", h, vi.set.Size(), txd, nev, fpCommit(commit), fpHeader(b.Header()))
	return genBlock{b: b, vi: vi, desc: desc}
}

func minU64(a, b uint64) uint64 {
	if a < b {
		return a
	}
	return b
}

func sameID(a, b types.BlockID) bool { return a == b }

func cloneBytes(b []byte) []byte { return append([]byte(nil), b...) }

func eqBytes(a, b []byte) bool { return bytes.Equal(a, b) }
