package c13

import (
	"bytes"
	"fmt"
	"io/ioutil"
	"testing"
	"time"

	"github.com/kardiachain/go-kardia/kai/state/cstate"
	"github.com/kardiachain/go-kardia/lib/common"
	"github.com/kardiachain/go-kardia/lib/log"
	kproto "github.com/kardiachain/go-kardia/proto/kardiachain/types"
	"github.com/kardiachain/go-kardia/types"

	"verifharness/internal/ev"
	"verifharness/internal/netsim"
)

// fixedBlock is a deterministic block (no random choice involved): height 3, six pool transactions, a commit of
// three really signed entries and one duplicate-vote evidence. Used by the directed tests and as fuzz seed.
func fixedBlock(height uint64, ntx int, withEvidence bool) (*types.Block, valInfo) {
	vals := []*types.Validator{types.NewValidator(addrOf(0), 10), types.NewValidator(addrOf(1), 15), types.NewValidator(addrOf(2), 10)}
	vs := types.NewValidatorSet(vals)
	vi := valInfo{set: vs, keys: make([]int, 3)}
	for i, v := range vs.Validators {
		for k := 0; k < 3; k++ {
			if addrOf(k) == v.Address {
				vi.keys[i] = k
			}
		}
	}
	base := time.Unix(1700000100, 0).UTC()
	hd := &types.Header{Height: height, Time: base.Add(1500 * time.Millisecond), GasLimit: 20000000, ProposerAddress: vs.Validators[0].Address,
		ValidatorsHash: vs.Hash(), NextValidatorsHash: vs.Hash(), AppHash: common.BytesToHash([]byte("app"))}
	var lc *types.Commit
	if height == 1 {
		lc = types.NewCommit(0, 0, types.BlockID{}, nil)
	} else {
		hd.LastBlockID = types.BlockID{Hash: common.BytesToHash([]byte("last")), PartsHeader: types.PartSetHeader{Total: 1, Hash: common.BytesToHash([]byte("lastparts"))}}
		sigs := make([]types.CommitSig, 3)
		for i := range sigs {
			if i == 2 {
				sigs[i] = types.NewCommitSigAbsent()
				continue
			}
			v := &types.Vote{ValidatorAddress: vs.Validators[i].Address, ValidatorIndex: uint32(i), Height: height - 1, Round: 1, Timestamp: base.Add(time.Duration(i+1) * time.Second), Type: kproto.PrecommitType, BlockID: hd.LastBlockID}
			signVote(vi.keys[i], v)
			sigs[i] = v.CommitSig()
		}
		lc = types.NewCommit(height-1, 1, hd.LastBlockID, sigs)
	}
	var evs []types.Evidence
	if withEvidence {
		mk := func(tag string) *types.Vote {
			v := &types.Vote{ValidatorAddress: vs.Validators[1].Address, ValidatorIndex: 1, Height: 1, Round: 0, Timestamp: base, Type: kproto.PrevoteType,
				BlockID: types.BlockID{Hash: common.BytesToHash([]byte(tag)), PartsHeader: types.PartSetHeader{Total: 1, Hash: common.BytesToHash([]byte(tag + "p"))}}}
			signVote(vi.keys[1], v)
			return v
		}
		evs = append(evs, types.NewDuplicateVoteEvidence(mk("a"), mk("b"), base, vs))
	}
	return types.NewBlock(hd, pool()[:ntx], lc, evs, hasher()), vi
}

func TestDirected(t *testing.T) {
	// ---- fixed: partset.index-not-bound-to-proof (D2). A genuine part offered under another index BEFORE the
	// genuine part of that index must be rejected and must not block the genuine part.
	for _, ntx := range []int{0, 3, 12} {
		b, _ := fixedBlock(3, ntx, ntx > 0)
		data := blockBytes(t, b)
		for _, psz := range []uint32{64, 200, uint32(len(data)+1) / 2} {
			sender := b.MakePartSet(psz)
			T := int(sender.Total())
			if T < 2 {
				continue
			}
			for i := 0; i < T; i++ {
				for _, j := range []int{(i + 1) % T, (i + T - 1) % T, T - 1 - i} {
					if j == i {
						continue
					}
					recv := types.NewPartSetFromHeader(sender.Header())
					bad := clonePart(sender.GetPart(j))
					bad.Index = uint32(i)
					ct := fmt.Sprintf("directed D2: %d parts of %d bytes, part %d offered under index %d first", T, psz, j, i)
					var added bool
					ev.Guard(t, func() string { return ct }, func() { added, _ = recv.AddPart(bad) })
					if added || recv.Count() != 0 {
						ev.Violation(t, "partset.index-not-bound-to-proof", ct, "the genuine part %d was stored under index %d", j, i)
					}
					for k := 0; k < T; k++ {
						if added, err := recv.AddPart(clonePart(sender.GetPart(k))); !added || err != nil {
							ev.Violation(t, "partset.index-not-bound-to-proof", ct, "after the misplaced part was offered, the genuine part %d is not accepted: added=%v err=%v", k, added, err)
						}
					}
					got, _ := ioutil.ReadAll(recv.GetReader())
					if !recv.IsComplete() || !bytes.Equal(got, data) {
						ev.Violation(t, "partset.index-not-bound-to-proof", ct, "reassembled bytes differ from the serialized block")
					}
					ev.Case(true, ct, "directed-D2")
				}
			}
		}
	}

	// ---- lead: the rlpgen-generated Header.EncodeRLP drops Time (C16 header.rlp-drops-time). The BLOCK HASH is not
	// computed from that encoding (Header.Hash hashes the protobuf form), so Time must still change the hash.
	{
		b, _ := fixedBlock(3, 2, false)
		h := b.Header()
		for _, d := range []time.Duration{1, -1, time.Second, time.Hour, -time.Duration(h.Time.Nanosecond())} {
			if d == 0 {
				continue
			}
			h2 := b.Header()
			h2.Time = h2.Time.Add(d)
			ct := fmt.Sprintf("directed: header time shifted by %v", d)
			if h2.Hash() == h.Hash() {
				ev.Violation(t, "block.hash-does-not-bind:header.time", ct, "headers that differ only in Time (%v vs %v) have the same Hash()", h.Time, h2.Time)
			}
			nb := types.NewBlock(h2, b.Transactions(), b.LastCommit(), nil, hasher())
			if nb.Hash() == b.Hash() || sameID(blockIDOf(nb), blockIDOf(b)) {
				ev.Violation(t, "block.hash-does-not-bind:header.time", ct, "blocks that differ only in header Time share a hash or a BlockID")
			}
			ev.Case(true, ct, "directed-time")
		}
	}

	// ---- known findings: reproduced on a real two-validator chain
	s, err := netsim.NewSim([]int64{15, 30}, nil, nil)
	if err != nil {
		t.Fatalf("harness: %v", err)
	}
	defer s.Close()
	s.Start()
	if ok, _, why := s.SyncRun(s.Correct, 3, 400); !ok {
		t.Fatalf("harness: could not build the chain: %s", why)
	}
	src := s.Nodes[0]
	fresh, err := netsim.NewNode(99, s.G, netsim.Key(50), netsim.NodeOpts{})
	if err != nil {
		t.Fatalf("harness: %v", err)
	}
	defer fresh.Close()
	cold := func() *cstate.BlockExecutor {
		return cstate.NewBlockExecutor(fresh.Store, log.New(), fresh.EvPool, fresh.BOps)
	}
	state := fresh.CS.VerifState()
	twin := func(g *types.Block, f func(c *types.Commit)) *types.Block {
		lc := g.LastCommit()
		c := types.NewCommit(lc.Height, lc.Round, lc.BlockID, lc.Signatures)
		f(c)
		m, err := fromWire(blockBytes(t, types.NewBlock(g.Header(), g.Transactions(), c, g.Evidence().Evidence, hasher())))
		if err != nil {
			return nil
		}
		return m
	}

	// (1) initial height: LastCommit round / block id are covered by neither Hash() nor validation
	g1 := src.BOps.LoadBlock(1)
	{
		m := twin(g1, func(c *types.Commit) {
			c.Round = 7
			c.BlockID = types.BlockID{Hash: common.BytesToHash([]byte("x")), PartsHeader: types.PartSetHeader{Total: 9, Hash: common.BytesToHash([]byte("y"))}}
		})
		repro := m != nil && m.Hash() == g1.Hash() && fpBlock(m) != fpBlock(g1) && cold().ValidateBlock(state, g1) == nil && cold().ValidateBlock(state, m) == nil
		if repro && sameID(blockIDOf(m), blockIDOf(g1)) {
			ev.Violation(t, "block.id-does-not-bind:lastcommit.height-round-blockid", "directed", "two different valid initial blocks share a BlockID")
		}
		ev.KnownReproduced("block.hash-does-not-bind:lastcommit.height-round-blockid@initial-height", repro)
	}
	// (2) initial height: a block without LastCommit passes ValidateBasic and makes validateBlock dereference nil
	{
		nb, err := fromWire(blockBytes(t, types.NewBlock(g1.Header(), g1.Transactions(), nil, nil, hasher())))
		repro := false
		if err == nil {
			p, fn := ev.Try(func() { _ = cold().ValidateBlock(state, nb) })
			repro = p != "" && fn == "kai/state/cstate.validateBlock"
		}
		ev.KnownReproduced("panic:kai/state/cstate.validateBlock", repro)
	}
	// (3) any later height: the executor's verification cache is keyed by Block.Hash() (the header hash), which does
	// not cover LastCommit.Height/Round/BlockID: once a block has been validated, a copy with another commit round
	// (its signatures no longer verify) is accepted without being looked at.
	{
		parts := g1.MakePartSet(types.BlockPartSizeBytes)
		fresh.BOps.SaveBlock(g1, parts, src.BOps.LoadSeenCommit(1))
		st2, _, err := fresh.Exec.ApplyBlock(state, types.BlockID{Hash: g1.Hash(), PartsHeader: parts.Header()}, g1)
		if err != nil {
			t.Fatalf("harness: replay of block 1: %v", err)
		}
		g2 := src.BOps.LoadBlock(2)
		m := twin(g2, func(c *types.Commit) { c.Round++ })
		repro := false
		if m != nil && m.Hash() == g2.Hash() && !sameID(blockIDOf(m), blockIDOf(g2)) {
			coldErr := cold().ValidateBlock(st2, m)
			warm := cold()
			okOrig := warm.ValidateBlock(st2, g2)
			warmErr := warm.ValidateBlock(st2, m)
			repro = coldErr != nil && okOrig == nil && warmErr == nil
			fmt.Printf("validated-twin: fresh executor: %v; executor that validated the original: %v\n", coldErr, warmErr)
		}
		ev.KnownReproduced("block.hash-does-not-bind:lastcommit.height-round-blockid@validated-twin", repro)
	}
}
