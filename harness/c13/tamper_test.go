package c13

import (
	"bytes"
	"fmt"
	"strings"
	"testing"
	"time"

	"github.com/gogo/protobuf/proto"
	"pgregory.net/rapid"

	"github.com/kardiachain/go-kardia/kai/state/cstate"
	"github.com/kardiachain/go-kardia/lib/common"
	"github.com/kardiachain/go-kardia/lib/log"
	"github.com/kardiachain/go-kardia/lib/rlp"
	kproto "github.com/kardiachain/go-kardia/proto/kardiachain/types"
	"github.com/kardiachain/go-kardia/types"

	"verifharness/internal/ev"
	"verifharness/internal/netsim"
)

// ---------------------------------------------------------------- oracle 3: single-field mutations of a valid block
//
// A real chain of a few blocks is produced by netsim (real ConsensusState nodes). A fresh node with the same genesis
// replays it block by block (SaveBlock + ApplyBlock, as block sync does); before block h is applied, the replaying
// node's state is exactly "the chain state block h is valid for". At that point originals for height h are judged
// valid (the committed block itself, and blocks the harness derives for the same slot: drawn transactions, really
// signed commit with drawn round/flags/timestamps, really signed duplicate-vote evidence about earlier heights), and
// every mutation of the catalogue is applied to the original's wire form, decoded the way a receiving node decodes
// it (proto.Unmarshal + BlockFromProto, which runs ValidateBasic) and validated with BlockExecutor.ValidateBlock.
//
// For a mutant M that decodes and differs from the original O in content (accessor fingerprint):
//   block.id-does-not-bind:<field>     M valid on a fresh executor and BlockID(M) == BlockID(O)
//   block.hash-does-not-bind:<field>   M valid on a fresh executor and M.Hash() == O.Hash()   (BlockIDs differ)
//   …@validated-twin                   M invalid on a fresh executor but accepted by the executor that validated O
// Bodies are mutated twice: raw (header hashes left alone) and rehashed (TxHash/NumTxs/LastCommitHash/EvidenceHash
// re-derived with NewBlock, as a forger would).

type tamperCtx struct {
	t      *rapid.T
	s      *netsim.Sim
	fresh  *netsim.Node
	state  cstate.LatestBlockState
	h      uint64
	chain  string
	orig   *types.Block
	odesc  string
	obytes []byte
	ofp    string
	oid    types.BlockID
	stats  map[string]int
}

func (c *tamperCtx) cold() *cstate.BlockExecutor {
	return cstate.NewBlockExecutor(c.fresh.Store, log.New(), c.fresh.EvPool, c.fresh.BOps)
}

func valInfoOf(s *netsim.Sim, vs *types.ValidatorSet) valInfo {
	vi := valInfo{set: vs, keys: make([]int, vs.Size())}
	for i, v := range vs.Validators {
		vi.keys[i] = -1
		for k := range s.Keys {
			if s.Addr(k) == v.Address {
				vi.keys[i] = k
			}
		}
		if vi.keys[i] < 0 {
			panic("harness: validator without a known key")
		}
	}
	return vi
}

// fieldGroup maps a mutated field to the name used in finding keys.
func fieldGroup(field string) string {
	switch field {
	case "lastcommit.height", "lastcommit.round", "lastcommit.blockid":
		return "lastcommit.height-round-blockid"
	}
	return field
}

// judge decides one mutant given as wire bytes.
func (c *tamperCtx) judge(name, field, params string, wire []byte) {
	t := c.t
	canon := fmt.Sprintf("%s h=%d orig=%s mut=%s %s", c.chain, c.h, c.odesc, name, params)
	ct := func() string { return canon }
	if bytes.Equal(wire, c.obytes) {
		ev.Class("tamper-noop")
		return
	}
	at, sf := "", field+"@later-height"
	if c.h == c.state.InitialHeight {
		at, sf = "@initial-height", field+"@initial-height"
	}
	var m *types.Block
	var err error
	ev.Guard(t, ct, func() { m, err = fromWire(wire) })
	if err != nil {
		c.stats[sf+"|rejected-on-receipt(decode/ValidateBasic)"]++
		ev.Case(false, canon, "tamper", "tamper:rejected-on-receipt")
		return
	}
	if fpBlock(m) == c.ofp {
		// the same block in other bytes (a wire-only field, or a value the decoder normalises): not a different block
		c.stats[sf+"|same-block-other-bytes"]++
		ev.Class("tamper-same-block-other-bytes")
		return
	}
	hashSame := m.Hash() == c.orig.Hash()
	idSame := false
	if hashSame {
		idSame = sameID(blockIDOf(m), c.oid)
	}
	var coldErr, warmErr error
	panicked := true
	ev.Guard(t, ct, func() {
		coldErr = c.cold().ValidateBlock(c.state, m)
		warmErr = c.fresh.Exec.ValidateBlock(c.state, m)
		panicked = false
	})
	if panicked { // a known panic key: counted under excluded_known by Guard
		c.stats[sf+"|validation-panics"]++
		ev.Case(true, canon, "tamper", "tamper:validation-panics")
		return
	}
	hs, vs := "hash-changed", "validation-rejects"
	if hashSame {
		hs = "hash-SAME"
	}
	if coldErr == nil {
		vs = "validation-accepts"
	}
	c.stats[sf+"|"+hs+"+"+vs]++
	switch {
	case coldErr == nil && idSame:
		ev.Violation(t, "block.id-does-not-bind:"+fieldGroup(field), canon, "mutation %s (%s) gives a different block that is valid for the same state and has the SAME BlockID %v\norig: %s\nmut:  %s", name, params, c.oid, c.ofp, fpBlock(m))
	case coldErr == nil && hashSame:
		ev.Violation(t, "block.hash-does-not-bind:"+fieldGroup(field)+at, canon, "mutation %s (%s) gives a different block with the same Hash() %x that passes ValidateBasic and ValidateBlock (only the part-set hash differs)", name, params, m.Hash().Bytes()[:6])
	case coldErr != nil && warmErr == nil:
		ev.Violation(t, "block.hash-does-not-bind:"+fieldGroup(field)+"@validated-twin", canon, "mutation %s (%s) is rejected by a fresh executor (%v) but accepted by the executor that validated the original: same Hash()=%v", name, params, coldErr, hashSame)
	case coldErr == nil && warmErr != nil:
		ev.Violation(t, "validation.order-dependent", canon, "mutation %s (%s): fresh executor accepts, the executor that validated the original rejects: %v", name, params, warmErr)
	}
	cl := "tamper:caught-by-hash-only"
	if coldErr != nil {
		cl = "tamper:caught-by-state-validation"
		if !hashSame {
			cl = "tamper:caught-by-hash-and-state-validation"
		}
	}
	ev.Case(true, canon, "tamper", cl)
	if ev.WantSample(cl) {
		ev.Sample(cl, fmt.Sprintf("%s -> cold=%v", canon, coldErr))
	}
}

// rehash re-derives the header's body hashes of a (body-)mutated proto block the way a forger would; nil if the
// mutated parts no longer decode.
func rehash(pb *kproto.Block) []byte {
	ub, err := types.BlockFromProtoUnsafe(pb)
	if err != nil {
		return nil
	}
	hd := ub.Header()
	hd.LastCommitHash = common.Hash{}
	var evs []types.Evidence
	if ub.Evidence() != nil {
		evs = ub.Evidence().Evidence
	}
	nb := types.NewBlock(hd, ub.Transactions(), ub.LastCommit(), evs, hasher())
	npb, err := nb.ToProto()
	if err != nil {
		return nil
	}
	bz, err := proto.Marshal(npb)
	if err != nil {
		return nil
	}
	return bz
}

func flipBytes(t *rapid.T, b []byte, label string) []byte {
	if len(b) == 0 {
		return []byte{byte(rapid.IntRange(1, 255).Draw(t, label+"-set"))}
	}
	o := cloneBytes(b)
	o[rapid.IntRange(0, len(o)-1).Draw(t, label+"-pos")] ^= 1 << uint(rapid.IntRange(0, 7).Draw(t, label+"-bit"))
	return o
}

type mutation struct {
	name  string
	field string
	body  bool // also run the rehashed variant
	apply func(c *tamperCtx, pb *kproto.Block) (params string, ok bool)
}

func hdrMut(name string, f func(c *tamperCtx, h *kproto.Header) (string, bool)) mutation {
	return mutation{name: "header." + name, field: "header." + strings.SplitN(name, ":", 2)[0], apply: func(c *tamperCtx, pb *kproto.Block) (string, bool) { return f(c, &pb.Header) }}
}

func hashMut(field string, get func(h *kproto.Header) *[]byte) []mutation {
	return []mutation{
		hdrMut(field+":bitflip", func(c *tamperCtx, h *kproto.Header) (string, bool) {
			p := get(h)
			*p = flipBytes(c.t, *p, field)
			return fmt.Sprintf("%x", *p), true
		}),
		hdrMut(field+":trimmed", func(c *tamperCtx, h *kproto.Header) (string, bool) {
			p := get(h)
			if len(*p) == 0 {
				return "", false
			}
			*p = cloneBytes((*p)[1:])
			return "first byte dropped", true
		}),
	}
}

func commitMut(name string, f func(c *tamperCtx, lc *kproto.Commit) (string, bool)) mutation {
	return mutation{name: "lastcommit." + name, field: "lastcommit." + strings.SplitN(name, ":", 2)[0], body: true, apply: func(c *tamperCtx, pb *kproto.Block) (string, bool) {
		if pb.LastCommit == nil {
			return "", false
		}
		return f(c, pb.LastCommit)
	}}
}

func sigMut(name string, f func(c *tamperCtx, lc *kproto.Commit, i int) (string, bool)) mutation {
	return commitMut("sig."+name, func(c *tamperCtx, lc *kproto.Commit) (string, bool) {
		var cand []int
		for i, s := range lc.Signatures {
			if s.BlockIdFlag != kproto.BlockIDFlagAbsent {
				cand = append(cand, i)
			}
		}
		if len(cand) == 0 {
			return "", false
		}
		i := rapid.SampledFrom(cand).Draw(c.t, "sig")
		p, ok := f(c, lc, i)
		return fmt.Sprintf("#%d %s", i, p), ok
	})
}

func evMut(name string, f func(c *tamperCtx, d *kproto.DuplicateVoteEvidence) (string, bool)) mutation {
	return mutation{name: "evidence." + name, field: "evidence." + strings.SplitN(name, ":", 2)[0], body: true, apply: func(c *tamperCtx, pb *kproto.Block) (string, bool) {
		if len(pb.Evidence.Evidence) == 0 {
			return "", false
		}
		i := rapid.IntRange(0, len(pb.Evidence.Evidence)-1).Draw(c.t, "ev")
		d, ok := pb.Evidence.Evidence[i].Sum.(*kproto.Evidence_DuplicateVoteEvidence)
		if !ok || d.DuplicateVoteEvidence == nil {
			return "", false
		}
		p, ok2 := f(c, d.DuplicateVoteEvidence)
		return fmt.Sprintf("#%d %s", i, p), ok2
	}}
}

func voteMuts(which string, get func(d *kproto.DuplicateVoteEvidence) *kproto.Vote) []mutation {
	mk := func(name string, f func(c *tamperCtx, v *kproto.Vote) string) mutation {
		return evMut(which+"."+name, func(c *tamperCtx, d *kproto.DuplicateVoteEvidence) (string, bool) {
			v := get(d)
			if v == nil {
				return "", false
			}
			return f(c, v), true
		})
	}
	return []mutation{
		mk("type", func(c *tamperCtx, v *kproto.Vote) string {
			if v.Type == kproto.PrevoteType {
				v.Type = kproto.PrecommitType
			} else {
				v.Type = kproto.PrevoteType
			}
			return v.Type.String()
		}),
		mk("height", func(c *tamperCtx, v *kproto.Vote) string { v.Height++; return "+1" }),
		mk("round", func(c *tamperCtx, v *kproto.Vote) string { v.Round++; return "+1" }),
		mk("blockid", func(c *tamperCtx, v *kproto.Vote) string {
			v.BlockID.Hash = flipBytes(c.t, v.BlockID.Hash, "vote-id")
			return "hash bitflip"
		}),
		mk("timestamp", func(c *tamperCtx, v *kproto.Vote) string {
			v.Timestamp = v.Timestamp.Add(time.Nanosecond)
			return "+1ns"
		}),
		mk("address", func(c *tamperCtx, v *kproto.Vote) string {
			v.ValidatorAddress = flipBytes(c.t, v.ValidatorAddress, "vote-addr")
			return "bitflip"
		}),
		mk("index", func(c *tamperCtx, v *kproto.Vote) string { v.ValidatorIndex++; return "+1" }),
		mk("signature", func(c *tamperCtx, v *kproto.Vote) string {
			v.Signature = flipBytes(c.t, v.Signature, "vote-sig")
			return "bitflip"
		}),
	}
}

func buildCatalogue() []mutation {
	var ms []mutation
	// ---- header
	ms = append(ms,
		hdrMut("height:+1", func(c *tamperCtx, h *kproto.Header) (string, bool) { h.Height++; return "", true }),
		hdrMut("height:-1", func(c *tamperCtx, h *kproto.Header) (string, bool) { h.Height--; return "", true }),
		hdrMut("time:+1ns", func(c *tamperCtx, h *kproto.Header) (string, bool) {
			h.Time = h.Time.Add(time.Nanosecond)
			return "", true
		}),
		hdrMut("time:-1ns", func(c *tamperCtx, h *kproto.Header) (string, bool) {
			h.Time = h.Time.Add(-time.Nanosecond)
			return "", true
		}),
		hdrMut("time:+1s", func(c *tamperCtx, h *kproto.Header) (string, bool) { h.Time = h.Time.Add(time.Second); return "", true }),
		hdrMut("time:drawn", func(c *tamperCtx, h *kproto.Header) (string, bool) {
			d := time.Duration(rapid.Int64Range(-3_000_000_000, 3_000_000_000).Draw(c.t, "dt"))
			h.Time = h.Time.Add(d)
			return d.String(), d != 0
		}),
		hdrMut("time:whole-second", func(c *tamperCtx, h *kproto.Header) (string, bool) {
			if h.Time.Nanosecond() == 0 {
				return "", false
			}
			h.Time = h.Time.Truncate(time.Second)
			return "", true
		}),
		hdrMut("gaslimit:+1", func(c *tamperCtx, h *kproto.Header) (string, bool) { h.GasLimit++; return "", true }),
		hdrMut("gaslimit:0", func(c *tamperCtx, h *kproto.Header) (string, bool) {
			ok := h.GasLimit != 0
			h.GasLimit = 0
			return "", ok
		}),
		hdrMut("numtxs:+1", func(c *tamperCtx, h *kproto.Header) (string, bool) { h.NumTxs++; return "", true }),
		hdrMut("numtxs:0", func(c *tamperCtx, h *kproto.Header) (string, bool) { ok := h.NumTxs != 0; h.NumTxs = 0; return "", ok }),
		hdrMut("lastblockid:hash-bitflip", func(c *tamperCtx, h *kproto.Header) (string, bool) {
			h.LastBlockId.Hash = flipBytes(c.t, h.LastBlockId.Hash, "lbid")
			return "", true
		}),
		hdrMut("lastblockid:parts-total+1", func(c *tamperCtx, h *kproto.Header) (string, bool) {
			h.LastBlockId.PartSetHeader.Total++
			return "", true
		}),
		hdrMut("lastblockid:parts-hash-bitflip", func(c *tamperCtx, h *kproto.Header) (string, bool) {
			h.LastBlockId.PartSetHeader.Hash = flipBytes(c.t, h.LastBlockId.PartSetHeader.Hash, "lbph")
			return "", true
		}),
		hdrMut("proposer:other-validator", func(c *tamperCtx, h *kproto.Header) (string, bool) {
			vs := c.state.Validators.Validators
			if len(vs) < 2 {
				return "", false
			}
			v := vs[rapid.IntRange(0, len(vs)-1).Draw(c.t, "prop")]
			if bytes.Equal(v.Address.Bytes(), h.ProposerAddress) {
				return "", false
			}
			h.ProposerAddress = v.Address.Bytes()
			return "", true
		}),
		hdrMut("proposer:bitflip", func(c *tamperCtx, h *kproto.Header) (string, bool) {
			h.ProposerAddress = flipBytes(c.t, h.ProposerAddress, "prop")
			return "", true
		}),
		hdrMut("chainid(wire-only)", func(c *tamperCtx, h *kproto.Header) (string, bool) { h.ChainID = "other-chain"; return "", true }),
	)
	ms = append(ms, hashMut("lastcommithash", func(h *kproto.Header) *[]byte { return &h.LastCommitHash })...)
	ms = append(ms, hashMut("datahash", func(h *kproto.Header) *[]byte { return &h.DataHash })...)
	ms = append(ms, hashMut("validatorshash", func(h *kproto.Header) *[]byte { return &h.ValidatorsHash })...)
	ms = append(ms, hashMut("nextvalidatorshash", func(h *kproto.Header) *[]byte { return &h.NextValidatorsHash })...)
	ms = append(ms, hashMut("consensushash", func(h *kproto.Header) *[]byte { return &h.ConsensusHash })...)
	ms = append(ms, hashMut("apphash", func(h *kproto.Header) *[]byte { return &h.AppHash })...)
	ms = append(ms, hashMut("evidencehash", func(h *kproto.Header) *[]byte { return &h.EvidenceHash })...)

	// ---- transactions
	tx := func(name string, f func(c *tamperCtx, d *kproto.Data) (string, bool)) mutation {
		return mutation{name: "txs." + name, field: "txs." + name, body: true, apply: func(c *tamperCtx, pb *kproto.Block) (string, bool) { return f(c, &pb.Data) }}
	}
	poolTx := func(c *tamperCtx) []byte {
		bz, err := rlp.EncodeToBytes(pool()[rapid.IntRange(0, poolSmall-1).Draw(c.t, "pool-tx")])
		if err != nil {
			panic(err)
		}
		return bz
	}
	ms = append(ms,
		tx("removed", func(c *tamperCtx, d *kproto.Data) (string, bool) {
			if len(d.Txs) == 0 {
				return "", false
			}
			i := txIndex(c.t, len(d.Txs))
			d.Txs = append(d.Txs[:i:i], d.Txs[i+1:]...)
			return fmt.Sprintf("#%d", i), true
		}),
		tx("added", func(c *tamperCtx, d *kproto.Data) (string, bool) {
			i := rapid.IntRange(0, len(d.Txs)).Draw(c.t, "at")
			d.Txs = append(d.Txs[:i:i], append([][]byte{poolTx(c)}, d.Txs[i:]...)...)
			return fmt.Sprintf("at %d", i), true
		}),
		tx("duplicated", func(c *tamperCtx, d *kproto.Data) (string, bool) {
			if len(d.Txs) == 0 {
				return "", false
			}
			i := txIndex(c.t, len(d.Txs))
			d.Txs = append(d.Txs[:i:i], append([][]byte{cloneBytes(d.Txs[i])}, d.Txs[i:]...)...)
			return fmt.Sprintf("#%d", i), true
		}),
		tx("swapped", func(c *tamperCtx, d *kproto.Data) (string, bool) {
			if len(d.Txs) < 2 {
				return "", false
			}
			i := rapid.IntRange(0, len(d.Txs)-2).Draw(c.t, "tx")
			j := rapid.IntRange(i+1, len(d.Txs)-1).Draw(c.t, "tx2")
			if bytes.Equal(d.Txs[i], d.Txs[j]) {
				return "", false
			}
			d.Txs[i], d.Txs[j] = d.Txs[j], d.Txs[i]
			return fmt.Sprintf("#%d<->#%d", i, j), true
		}),
		tx("replaced", func(c *tamperCtx, d *kproto.Data) (string, bool) {
			if len(d.Txs) == 0 {
				return "", false
			}
			i := txIndex(c.t, len(d.Txs))
			n := poolTx(c)
			if bytes.Equal(n, d.Txs[i]) {
				return "", false
			}
			d.Txs[i] = n
			return fmt.Sprintf("#%d", i), true
		}),
		tx("byte-changed", func(c *tamperCtx, d *kproto.Data) (string, bool) {
			if len(d.Txs) == 0 {
				return "", false
			}
			i := txIndex(c.t, len(d.Txs))
			d.Txs[i] = flipBytes(c.t, d.Txs[i], "tx-byte")
			return fmt.Sprintf("#%d", i), true
		}),
	)

	// ---- last commit
	ms = append(ms,
		commitMut("height:+1", func(c *tamperCtx, lc *kproto.Commit) (string, bool) { lc.Height++; return "", true }),
		commitMut("height:-1", func(c *tamperCtx, lc *kproto.Commit) (string, bool) { lc.Height--; return "", true }),
		commitMut("round:+1", func(c *tamperCtx, lc *kproto.Commit) (string, bool) { lc.Round++; return "", true }),
		commitMut("round:drawn", func(c *tamperCtx, lc *kproto.Commit) (string, bool) {
			r := uint32(rapid.IntRange(0, 9).Draw(c.t, "round"))
			ok := r != lc.Round
			lc.Round = r
			return fmt.Sprint(r), ok
		}),
		commitMut("blockid:hash-bitflip", func(c *tamperCtx, lc *kproto.Commit) (string, bool) {
			lc.BlockID.Hash = flipBytes(c.t, lc.BlockID.Hash, "cid")
			return "", true
		}),
		commitMut("blockid:parts-total+1", func(c *tamperCtx, lc *kproto.Commit) (string, bool) {
			lc.BlockID.PartSetHeader.Total++
			return "", true
		}),
		commitMut("blockid:parts-hash-bitflip", func(c *tamperCtx, lc *kproto.Commit) (string, bool) {
			lc.BlockID.PartSetHeader.Hash = flipBytes(c.t, lc.BlockID.PartSetHeader.Hash, "cph")
			return "", true
		}),
		sigMut("flag", func(c *tamperCtx, lc *kproto.Commit, i int) (string, bool) {
			f := kproto.BlockIDFlag(rapid.SampledFrom([]int{2, 3, 2, 3, 0, 1, 4}).Draw(c.t, "flag"))
			ok := f != lc.Signatures[i].BlockIdFlag
			lc.Signatures[i].BlockIdFlag = f
			return fmt.Sprintf("-> %d", f), ok
		}),
		sigMut("address:bitflip", func(c *tamperCtx, lc *kproto.Commit, i int) (string, bool) {
			lc.Signatures[i].ValidatorAddress = flipBytes(c.t, lc.Signatures[i].ValidatorAddress, "sig-addr")
			return "", true
		}),
		sigMut("address:other-validator", func(c *tamperCtx, lc *kproto.Commit, i int) (string, bool) {
			if len(lc.Signatures) < 2 {
				return "", false
			}
			j := (i + 1) % len(lc.Signatures)
			a := c.state.LastValidators.Validators[j].Address.Bytes()
			if bytes.Equal(a, lc.Signatures[i].ValidatorAddress) {
				return "", false
			}
			lc.Signatures[i].ValidatorAddress = a
			return fmt.Sprintf("-> validator %d", j), true
		}),
		sigMut("timestamp:+1ns", func(c *tamperCtx, lc *kproto.Commit, i int) (string, bool) {
			lc.Signatures[i].Timestamp = lc.Signatures[i].Timestamp.Add(time.Nanosecond)
			return "", true
		}),
		sigMut("timestamp:drawn", func(c *tamperCtx, lc *kproto.Commit, i int) (string, bool) {
			d := time.Duration(rapid.Int64Range(-3_000_000_000, 3_000_000_000).Draw(c.t, "dts"))
			lc.Signatures[i].Timestamp = lc.Signatures[i].Timestamp.Add(d)
			return d.String(), d != 0
		}),
		sigMut("signature:bitflip", func(c *tamperCtx, lc *kproto.Commit, i int) (string, bool) {
			lc.Signatures[i].Signature = flipBytes(c.t, lc.Signatures[i].Signature, "sig")
			return "", true
		}),
		sigMut("signature:truncated", func(c *tamperCtx, lc *kproto.Commit, i int) (string, bool) {
			s := lc.Signatures[i].Signature
			if len(s) < 2 {
				return "", false
			}
			lc.Signatures[i].Signature = cloneBytes(s[:rapid.IntRange(1, len(s)-1).Draw(c.t, "cut")])
			return "", true
		}),
		sigMut("signature:of-other-validator", func(c *tamperCtx, lc *kproto.Commit, i int) (string, bool) {
			for j := range lc.Signatures {
				if j != i && len(lc.Signatures[j].Signature) > 0 && !bytes.Equal(lc.Signatures[j].Signature, lc.Signatures[i].Signature) {
					lc.Signatures[i].Signature = cloneBytes(lc.Signatures[j].Signature)
					return fmt.Sprintf("<- #%d", j), true
				}
			}
			return "", false
		}),
		commitMut("sigs:removed", func(c *tamperCtx, lc *kproto.Commit) (string, bool) {
			if len(lc.Signatures) == 0 {
				return "", false
			}
			i := rapid.IntRange(0, len(lc.Signatures)-1).Draw(c.t, "sig")
			lc.Signatures = append(lc.Signatures[:i:i], lc.Signatures[i+1:]...)
			return fmt.Sprintf("#%d", i), true
		}),
		commitMut("sigs:absent-appended", func(c *tamperCtx, lc *kproto.Commit) (string, bool) {
			lc.Signatures = append(lc.Signatures, kproto.CommitSig{BlockIdFlag: kproto.BlockIDFlagAbsent})
			return "", true
		}),
		commitMut("sigs:swapped", func(c *tamperCtx, lc *kproto.Commit) (string, bool) {
			if len(lc.Signatures) < 2 {
				return "", false
			}
			i := rapid.IntRange(0, len(lc.Signatures)-2).Draw(c.t, "sig")
			lc.Signatures[i], lc.Signatures[i+1] = lc.Signatures[i+1], lc.Signatures[i]
			return fmt.Sprintf("#%d<->#%d", i, i+1), true
		}),
		commitMut("sigs:one-made-absent", func(c *tamperCtx, lc *kproto.Commit) (string, bool) {
			for i := range lc.Signatures {
				if lc.Signatures[i].BlockIdFlag != kproto.BlockIDFlagAbsent {
					lc.Signatures[i] = kproto.CommitSig{BlockIdFlag: kproto.BlockIDFlagAbsent}
					return fmt.Sprintf("#%d", i), true
				}
			}
			return "", false
		}),
		mutation{name: "lastcommit.missing", field: "lastcommit.missing", body: true, apply: func(c *tamperCtx, pb *kproto.Block) (string, bool) {
			ok := pb.LastCommit != nil
			pb.LastCommit = nil
			return "", ok
		}},
	)

	// ---- evidence
	evd := func(name string, f func(c *tamperCtx, e *kproto.EvidenceData) (string, bool)) mutation {
		return mutation{name: "evidence." + name, field: "evidence." + name, body: true, apply: func(c *tamperCtx, pb *kproto.Block) (string, bool) { return f(c, &pb.Evidence) }}
	}
	ms = append(ms,
		evd("removed", func(c *tamperCtx, e *kproto.EvidenceData) (string, bool) {
			if len(e.Evidence) == 0 {
				return "", false
			}
			i := rapid.IntRange(0, len(e.Evidence)-1).Draw(c.t, "ev")
			e.Evidence = append(e.Evidence[:i:i], e.Evidence[i+1:]...)
			return fmt.Sprintf("#%d", i), true
		}),
		evd("duplicated", func(c *tamperCtx, e *kproto.EvidenceData) (string, bool) {
			if len(e.Evidence) == 0 {
				return "", false
			}
			e.Evidence = append(e.Evidence, e.Evidence[0])
			return "#0", true
		}),
		evd("swapped", func(c *tamperCtx, e *kproto.EvidenceData) (string, bool) {
			if len(e.Evidence) < 2 {
				return "", false
			}
			e.Evidence[0], e.Evidence[1] = e.Evidence[1], e.Evidence[0]
			return "#0<->#1", true
		}),
		evd("added", func(c *tamperCtx, e *kproto.EvidenceData) (string, bool) {
			if c.h < 2 {
				return "", false
			}
			d := c.drawEvidence()
			pe, err := types.EvidenceToProto(d)
			if err != nil {
				panic(err)
			}
			e.Evidence = append(e.Evidence, *pe)
			return "", true
		}),
		evMut("votes-swapped", func(c *tamperCtx, d *kproto.DuplicateVoteEvidence) (string, bool) {
			d.VoteA, d.VoteB = d.VoteB, d.VoteA
			return "", true
		}),
		evMut("total-power", func(c *tamperCtx, d *kproto.DuplicateVoteEvidence) (string, bool) {
			d.TotalVotingPower++
			return "+1", true
		}),
		evMut("validator-power", func(c *tamperCtx, d *kproto.DuplicateVoteEvidence) (string, bool) {
			d.ValidatorPower++
			return "+1", true
		}),
		evMut("timestamp", func(c *tamperCtx, d *kproto.DuplicateVoteEvidence) (string, bool) {
			d.Timestamp = d.Timestamp.Add(time.Nanosecond)
			return "+1ns", true
		}),
	)
	ms = append(ms, voteMuts("votea", func(d *kproto.DuplicateVoteEvidence) *kproto.Vote { return d.VoteA })...)
	ms = append(ms, voteMuts("voteb", func(d *kproto.DuplicateVoteEvidence) *kproto.Vote { return d.VoteB })...)
	return ms
}

var catalogue = buildCatalogue()

// drawEvidence: really signed duplicate votes of a validator of an earlier height, labelled with that block's time.
func (c *tamperCtx) drawEvidence() *types.DuplicateVoteEvidence {
	eh := uint64(rapid.IntRange(1, int(c.h)-1).Draw(c.t, "ev-height"))
	vals, err := c.fresh.Store.LoadValidators(eh)
	if err != nil {
		c.t.Fatalf("harness: LoadValidators(%d): %v", eh, err)
	}
	meta := c.fresh.BOps.LoadBlockMeta(eh)
	if meta == nil {
		c.t.Fatalf("harness: no block meta at %d", eh)
	}
	return drawDuplicateVote(c.t, valInfoOf(c.s, vals), eh, meta.Header.Time)
}

// deriveOriginal builds another block for the slot of g that is valid for the same state.
func (c *tamperCtx) deriveOriginal(g *types.Block) (*types.Block, string) {
	t := c.t
	hd := g.Header()
	txs, txd := drawTxs(t)
	var lc *types.Commit
	cd := "empty"
	if c.h == c.state.InitialHeight {
		lc = types.NewCommit(0, 0, types.BlockID{}, nil)
	} else {
		lc = drawCommit(t, valInfoOf(c.s, c.state.LastValidators), c.h-1, c.state.LastBlockID, c.state.LastBlockTime, true)
		hd.Time = cstate.MedianTime(lc, c.state.LastValidators)
		var fl []string
		for _, s := range lc.Signatures {
			fl = append(fl, fmt.Sprint(s.BlockIDFlag))
		}
		cd = fmt.Sprintf("r%d flags=%s", lc.Round, strings.Join(fl, ""))
	}
	var evs []types.Evidence
	nev := 0
	if c.h >= 2 {
		nev = rapid.SampledFrom([]int{0, 1, 1, 2}).Draw(t, "nev")
		for i := 0; i < nev; i++ {
			evs = append(evs, c.drawEvidence())
		}
	}
	vs := c.state.Validators.Validators
	hd.ProposerAddress = vs[rapid.IntRange(0, len(vs)-1).Draw(t, "proposer")].Address
	if rapid.Bool().Draw(t, "conshash") {
		hd.ConsensusHash = drawHash(t, "conshash")
	}
	hd.LastCommitHash = common.Hash{}
	b := types.NewBlock(hd, txs, lc, evs, hasher())
	return b, fmt.Sprintf("derived{%s commit=%s nev=%d}", txd, cd, nev)
}

func (c *tamperCtx) runCatalogue(o *types.Block, odesc string) {
	t := c.t
	c.orig, c.odesc = o, odesc
	c.obytes = blockBytes(t, o)
	// the original as the receiving node sees it
	ow, err := fromWire(c.obytes)
	if err != nil {
		ev.Violation(t, "roundtrip.block.rejected", c.chain+" "+odesc, "a valid block is rejected on receipt: %v", err)
	}
	c.ofp = fpBlock(ow)
	if c.ofp != fpBlock(o) || ow.Hash() != o.Hash() {
		ev.Violation(t, "roundtrip.block.content", c.chain+" "+odesc, "block changed over the wire")
	}
	c.oid = blockIDOf(o)
	// precondition: the original is valid for the state, on a fresh executor and on the node's own
	var e1, e2 error
	ev.Guard(t, func() string { return c.chain + " " + odesc }, func() {
		e1 = c.cold().ValidateBlock(c.state, ow)
		e2 = c.fresh.Exec.ValidateBlock(c.state, ow)
	})
	if e1 != nil || e2 != nil {
		t.Fatalf("harness: original %s at height %d is not valid for its state: %v / %v", odesc, c.h, e1, e2)
	}
	oc := []string{"orig:" + strings.SplitN(odesc, "{", 2)[0], fmt.Sprintf("orig-txs=%s", bucket(len(o.Transactions())))}
	if c.h == c.state.InitialHeight {
		oc = append(oc, "orig-at-initial-height")
	}
	if len(o.Evidence().Evidence) > 0 {
		oc = append(oc, "orig-with-evidence")
	}
	if lc := o.LastCommit(); lc != nil {
		for _, sg := range lc.Signatures {
			if sg.BlockIDFlag == types.BlockIDFlagNil {
				oc = append(oc, "orig-commit-has-nil-vote")
				break
			}
		}
		for _, sg := range lc.Signatures {
			if sg.Absent() {
				oc = append(oc, "orig-commit-has-absent")
				break
			}
		}
		if lc.Round > 0 {
			oc = append(oc, "orig-commit-round>0")
		}
	}
	for _, cl := range oc {
		ev.Class(cl)
	}
	for _, m := range catalogue {
		pb := new(kproto.Block)
		if err := proto.Unmarshal(c.obytes, pb); err != nil {
			t.Fatalf("harness: %v", err)
		}
		params, ok := m.apply(c, pb)
		if !ok {
			continue
		}
		raw, err := proto.Marshal(pb)
		if err != nil {
			continue // e.g. a time outside the encodable range
		}
		c.judge(m.name, m.field, params, raw)
		if m.body {
			if rh := rehash(pb); rh != nil && !bytes.Equal(rh, raw) {
				c.judge(m.name+"+rehashed", m.field, params, rh)
			}
		}
	}
}

func TestTamper(t *testing.T) {
	rapid.Check(t, func(t *rapid.T) {
		n := rapid.SampledFrom([]int{1, 2, 3, 4, 4, 5, 7}).Draw(t, "n")
		powers := make([]int64, n)
		for i := range powers {
			powers[i] = int64(rapid.SampledFrom([]int{15, 15, 30, 45}).Draw(t, "p"))
		}
		H := uint64(rapid.IntRange(2, 4).Draw(t, "H"))
		var s *netsim.Sim
		var err error
		ev.Guard(t, nil, func() { s, err = netsim.NewSim(powers, nil, nil) })
		if err != nil {
			t.Fatalf("harness: %v", err)
		}
		defer s.Close()
		s.Start()
		var ok bool
		var why string
		ev.Guard(t, nil, func() { ok, _, why = s.SyncRun(s.Correct, H+1, 400) })
		if !ok {
			t.Fatalf("harness: could not build the chain: %s", why)
		}
		src := s.Nodes[0]
		fresh, err := netsim.NewNode(99, s.G, netsim.Key(50), netsim.NodeOpts{})
		if err != nil {
			t.Fatalf("harness: %v", err)
		}
		defer fresh.Close()
		c := &tamperCtx{t: t, s: s, fresh: fresh, state: fresh.CS.VerifState(), chain: fmt.Sprintf("chain{powers=%v}", powers), stats: map[string]int{}}
		for h := uint64(1); h <= H; h++ {
			g := src.BOps.LoadBlock(h)
			if g == nil {
				t.Fatalf("harness: source has no block %d", h)
			}
			c.h = h
			if rapid.IntRange(0, 2).Draw(t, "use-genuine") > 0 || h == 1 {
				c.runCatalogue(g, "committed")
			}
			nd := rapid.IntRange(0, 2).Draw(t, "derived")
			for i := 0; i < nd; i++ {
				o, d := c.deriveOriginal(g)
				c.runCatalogue(o, d)
			}
			parts := g.MakePartSet(types.BlockPartSizeBytes)
			seen := src.BOps.LoadSeenCommit(h)
			ev.Guard(t, nil, func() {
				fresh.BOps.SaveBlock(g, parts, seen)
				c.state, _, err = fresh.Exec.ApplyBlock(c.state, types.BlockID{Hash: g.Hash(), PartsHeader: parts.Header()}, g)
			})
			if err != nil {
				t.Fatalf("harness: replaying block %d: %v", h, err)
			}
		}
		for k, v := range c.stats {
			ev.ClassN("field:"+k, int64(v))
		}
	})
}

// txIndex draws a transaction position, biased towards the places where the index encoding used by DeriveSha changes
// (0, 0x7e, 0x7f, 0x80) and the ends of the list.
func txIndex(t *rapid.T, n int) int {
	if n > 1 && rapid.Bool().Draw(t, "tx-boundary") {
		var cand []int
		for _, c := range []int{0, 126, 127, 128, n - 1} {
			if c < n {
				cand = append(cand, c)
			}
		}
		return rapid.SampledFrom(cand).Draw(t, "tx")
	}
	return rapid.IntRange(0, n-1).Draw(t, "tx")
}
