package c13

import (
	"bytes"
	"fmt"
	"io"
	"io/ioutil"
	"strings"
	"testing"
	"time"

	"pgregory.net/rapid"

	"github.com/kardiachain/go-kardia/lib/common"
	"github.com/kardiachain/go-kardia/lib/merkle"
	"github.com/kardiachain/go-kardia/types"

	"verifharness/internal/ev"
)

// ---------------------------------------------------------------- oracle 1: reassembly under adversarial arrivals

func clonePart(p *types.Part) *types.Part {
	c := &types.Part{Index: p.Index, Bytes: cloneBytes(p.Bytes)}
	c.Proof = merkle.SimpleProof{Total: p.Proof.Total, Index: p.Proof.Index, LeafHash: cloneBytes(p.Proof.LeafHash)}
	for _, a := range p.Proof.Aunts {
		c.Proof.Aunts = append(c.Proof.Aunts, cloneBytes(a))
	}
	return c
}

func samePart(a, b *types.Part) bool {
	if a.Index != b.Index || !bytes.Equal(a.Bytes, b.Bytes) || a.Proof.Total != b.Proof.Total || a.Proof.Index != b.Proof.Index ||
		!bytes.Equal(a.Proof.LeafHash, b.Proof.LeafHash) || len(a.Proof.Aunts) != len(b.Proof.Aunts) {
		return false
	}
	for i := range a.Proof.Aunts {
		if !bytes.Equal(a.Proof.Aunts[i], b.Proof.Aunts[i]) {
			return false
		}
	}
	return true
}

func descPart(p *types.Part) string {
	return fmt.Sprintf("part{idx=%d len=%d proof=%d/%d aunts=%d leaf=%x}", p.Index, len(p.Bytes), p.Proof.Index, p.Proof.Total, len(p.Proof.Aunts), common.Fingerprint(p.Proof.LeafHash))
}

// The receiving side of one part set together with the harness's model of it.
type recvSet struct {
	ps      *types.PartSet
	genuine []*types.Part // the sender's parts (never handed to the product: clones are)
	items   [][]byte
	root    []byte
	filled  []bool
	nfilled int
	advSeen []bool // an adversarial part aimed at this index was offered while the slot was empty
}

const (
	expReject = iota
	expAccept
	expEither
)

// expectation is computed from the CONTENT of the offered part, independently of how the generator made it:
// the exact genuine part must be accepted; a part whose bytes are not the genuine bytes of its index, or whose audit
// path does not lead to the set's root, must be rejected; a part with the genuine bytes of its index and a path that
// does lead to the root but is labelled with another index/total (possible when two parts have equal content, or when
// the tree shape coincides) may go either way — the data stays what the hash commits to.
func (r *recvSet) expectation(p *types.Part) int {
	T := len(r.genuine)
	if int64(p.Index) >= int64(T) {
		return expReject
	}
	g := r.genuine[p.Index]
	if !bytes.Equal(p.Bytes, g.Bytes) {
		return expReject
	}
	if samePart(p, g) {
		return expAccept
	}
	if !bytes.Equal(p.Proof.LeafHash, refLeaf(p.Bytes)) {
		return expReject
	}
	if p.Proof.Total > 1<<20 || p.Proof.Index > 1<<20 {
		return expReject
	}
	if got := refVerify(int(p.Proof.Index), int(p.Proof.Total), p.Proof.LeafHash, p.Proof.Aunts); got == nil || !bytes.Equal(got, r.root) {
		return expReject
	}
	return expEither
}

// misplacedGenuine: p is, untouched except for its Index, the genuine part of another slot (the D2 shape).
func (r *recvSet) misplacedGenuine(p *types.Part) bool {
	j := p.Proof.Index
	if j >= uint64(len(r.genuine)) || j == uint64(p.Index) {
		return false
	}
	q := clonePart(p)
	q.Index = uint32(j)
	return samePart(q, r.genuine[j])
}

// offer hands p to the product and judges the outcome. kind names the generator's intent (finding key only).
func (r *recvSet) offer(t ev.TB, ct func() string, p *types.Part, kind string) {
	T := len(r.genuine)
	exp := r.expectation(p)
	inRange := int64(p.Index) < int64(T)
	wasFilled := inRange && r.filled[p.Index]
	if inRange && !wasFilled && exp != expAccept {
		r.advSeen[p.Index] = true
	}
	var added bool
	var err error
	ev.Guard(t, ct, func() { added, err = r.ps.AddPart(clonePart(p)) })
	switch {
	case wasFilled:
		if added {
			ev.Violation(t, "partset.slot-overwritten", ct(), "AddPart reported added=true for index %d which was already filled (%s, %s)", p.Index, kind, descPart(p))
		}
	case exp == expReject:
		if added {
			key := "partset.accepted:" + kind
			if r.misplacedGenuine(p) {
				key = "partset.index-not-bound-to-proof"
			}
			ev.Violation(t, key, ct(), "AddPart accepted a part that does not belong at index %d under this hash: %s (%s)", p.Index, descPart(p), kind)
		}
	case exp == expAccept:
		if !added || err != nil {
			key := "partset.genuine-rejected"
			if r.advSeen[p.Index] {
				key = "partset.genuine-blocked"
			}
			ev.Violation(t, key, ct(), "the genuine part %d was not added (added=%v err=%v) although its slot was empty", p.Index, added, err)
		}
		r.filled[p.Index] = true
		r.nfilled++
	default:
		if added {
			r.filled[p.Index] = true
			r.nfilled++
			ev.Class("relabelled-but-consistent-part:accepted")
		} else {
			ev.Class("relabelled-but-consistent-part:rejected")
		}
	}
	// model vs product after every offer
	if int(r.ps.Count()) != r.nfilled || r.ps.IsComplete() != (r.nfilled == T) {
		ev.Violation(t, "partset.state-inconsistent", ct(), "after offering %s (%s): Count=%d IsComplete=%v, model has %d of %d", descPart(p), kind, r.ps.Count(), r.ps.IsComplete(), r.nfilled, T)
	}
	if inRange {
		got := r.ps.GetPart(int(p.Index))
		ba := r.ps.BitArray()
		if r.filled[p.Index] {
			if got == nil || !bytes.Equal(got.Bytes, r.genuine[p.Index].Bytes) || !ba.GetIndex(int(p.Index)) {
				ev.Violation(t, "partset.state-inconsistent", ct(), "slot %d should hold the genuine bytes after %s (%s)", p.Index, descPart(p), kind)
			}
		} else if got != nil || ba.GetIndex(int(p.Index)) {
			ev.Violation(t, "partset.state-inconsistent", ct(), "slot %d should be empty after rejected %s (%s)", p.Index, descPart(p), kind)
		}
	}
}

var advKinds = []string{
	"genuine-other-index", "genuine-other-index", "genuine-other-index", "other-index-proof-reindexed", "proof-of-another-leaf", "proof-leaf-rehashed",
	"proof-other-total", "proof-other-total-index", "bytes-truncated", "bytes-extended", "bytes-bitflip", "bytes-bitflip-rehashed", "bytes-empty",
	"other-block", "other-block-relabelled", "index-beyond-total", "aunts-dropped", "aunts-extra", "aunts-swapped", "aunt-bitflip", "leafhash-short", "proof-empty",
}

// makeAdversarial builds an adversarial part aimed at slot i; nil when the kind does not apply to this set.
func makeAdversarial(t *rapid.T, kind string, i int, genuine, other []*types.Part) *types.Part {
	T := len(genuine)
	pickOther := func() int {
		if T < 2 {
			return -1
		}
		j := rapid.IntRange(0, T-2).Draw(t, "j")
		if j >= i {
			j++
		}
		return j
	}
	p := clonePart(genuine[i])
	switch kind {
	case "genuine-other-index":
		j := pickOther()
		if j < 0 {
			return nil
		}
		p = clonePart(genuine[j])
		p.Index = uint32(i)
	case "other-index-proof-reindexed":
		j := pickOther()
		if j < 0 {
			return nil
		}
		p = clonePart(genuine[j])
		p.Index, p.Proof.Index = uint32(i), uint64(i)
	case "proof-of-another-leaf":
		j := pickOther()
		if j < 0 {
			return nil
		}
		p.Proof = clonePart(genuine[j]).Proof
		p.Proof.Index = uint64(i)
	case "proof-leaf-rehashed":
		j := pickOther()
		if j < 0 {
			return nil
		}
		p.Proof = clonePart(genuine[j]).Proof
		p.Proof.Index = uint64(i)
		p.Proof.LeafHash = refLeaf(p.Bytes)
	case "proof-other-total":
		p.Proof.Total = uint64(rapid.SampledFrom([]int{0, 1, T - 1, T + 1, 2 * T, 1 << 40}).Draw(t, "total"))
	case "proof-other-total-index":
		p.Proof.Total = uint64(T + 1)
		p.Proof.Index = uint64(T)
	case "bytes-truncated":
		if len(p.Bytes) == 0 {
			return nil
		}
		p.Bytes = p.Bytes[:rapid.IntRange(0, len(p.Bytes)-1).Draw(t, "cut")]
	case "bytes-extended":
		p.Bytes = append(p.Bytes, byte(rapid.IntRange(0, 255).Draw(t, "extra")))
	case "bytes-bitflip", "bytes-bitflip-rehashed":
		if len(p.Bytes) == 0 {
			return nil
		}
		p.Bytes[rapid.IntRange(0, len(p.Bytes)-1).Draw(t, "pos")] ^= 1 << uint(rapid.IntRange(0, 7).Draw(t, "bit"))
		if kind == "bytes-bitflip-rehashed" {
			p.Proof.LeafHash = refLeaf(p.Bytes)
		}
	case "bytes-empty":
		p.Bytes = nil
		p.Proof.LeafHash = refLeaf(nil)
	case "other-block", "other-block-relabelled":
		if i >= len(other) {
			return nil
		}
		p = clonePart(other[i])
		if kind == "other-block-relabelled" {
			p.Proof.Total = uint64(T)
		}
	case "index-beyond-total":
		p.Index = uint32(rapid.SampledFrom([]int{T, T + 1, 2 * T, 1<<32 - 1}).Draw(t, "idx"))
		if rapid.Bool().Draw(t, "relabel") {
			p.Proof.Index = uint64(p.Index)
		}
	case "aunts-dropped":
		if len(p.Proof.Aunts) == 0 {
			return nil
		}
		k := rapid.IntRange(0, len(p.Proof.Aunts)-1).Draw(t, "drop")
		p.Proof.Aunts = append(p.Proof.Aunts[:k:k], p.Proof.Aunts[k+1:]...)
	case "aunts-extra":
		k := rapid.IntRange(0, len(p.Proof.Aunts)).Draw(t, "at")
		extra := refLeaf([]byte{byte(k)})
		p.Proof.Aunts = append(p.Proof.Aunts[:k:k], append([][]byte{extra}, p.Proof.Aunts[k:]...)...)
	case "aunts-swapped":
		if len(p.Proof.Aunts) < 2 {
			return nil
		}
		k := rapid.IntRange(0, len(p.Proof.Aunts)-2).Draw(t, "swap")
		p.Proof.Aunts[k], p.Proof.Aunts[k+1] = p.Proof.Aunts[k+1], p.Proof.Aunts[k]
	case "aunt-bitflip":
		if len(p.Proof.Aunts) == 0 {
			return nil
		}
		p.Proof.Aunts[rapid.IntRange(0, len(p.Proof.Aunts)-1).Draw(t, "aunt")][rapid.IntRange(0, 31).Draw(t, "pos")] ^= 0x10
	case "leafhash-short":
		p.Proof.LeafHash = p.Proof.LeafHash[:rapid.IntRange(0, len(p.Proof.LeafHash)-1).Draw(t, "cut")]
	case "proof-empty":
		p.Proof = merkle.SimpleProof{}
	default:
		panic("unknown kind " + kind)
	}
	return p
}

func drawPartSize(t *rapid.T, L int) uint32 {
	opts := []int{64, 64, 64, 100, 1000, 4096, types.BlockPartSizeBytes, types.BlockPartSizeBytes, L, L + 1, L - 1, (L + 1) / 2, (L + 2) / 3, 37}
	ps := rapid.SampledFrom(opts).Draw(t, "part-size")
	if ps < 1 {
		ps = 1
	}
	if min := (L + 399) / 400; ps < min { // at most 400 parts per set
		ps = min
	}
	return uint32(ps)
}

func TestParts(t *testing.T) {
	rapid.Check(t, func(t *rapid.T) {
		gb := drawBlock(t)
		data := blockBytes(t, gb.b)
		partSize := drawPartSize(t, len(data))
		var log []string
		log = append(log, gb.desc, fmt.Sprintf("len=%d partSize=%d", len(data), partSize))
		ct := func() string { return strings.Join(log, ";") }

		// ---- the sender's side: split and tree against the reference
		var sender *types.PartSet
		ev.Guard(t, ct, func() { sender = gb.b.MakePartSet(partSize) })
		T := (len(data) + int(partSize) - 1) / int(partSize)
		if int(sender.Total()) != T || !sender.IsComplete() || int(sender.Count()) != T {
			ev.Violation(t, "partset.split-differs-from-reference", ct(), "MakePartSet: total=%d count=%d complete=%v, expected %d parts", sender.Total(), sender.Count(), sender.IsComplete(), T)
		}
		genuine := make([]*types.Part, T)
		items := make([][]byte, T)
		for i := 0; i < T; i++ {
			p := sender.GetPart(i)
			lo, hi := i*int(partSize), (i+1)*int(partSize)
			if hi > len(data) {
				hi = len(data)
			}
			if p == nil || int(p.Index) != i || !bytes.Equal(p.Bytes, data[lo:hi]) {
				ev.Violation(t, "partset.split-differs-from-reference", ct(), "part %d of the sender's set is not bytes [%d,%d) of the serialized block", i, lo, hi)
			}
			genuine[i] = clonePart(p)
			items[i] = genuine[i].Bytes
		}
		root := refRoot(items)
		if !bytes.Equal(sender.Hash().Bytes(), root) || sender.Header().Total != uint32(T) || !sender.HasHeader(types.PartSetHeader{Total: uint32(T), Hash: common.BytesToHash(root)}) {
			ev.Violation(t, "merkle.root-differs-from-reference", ct(), "part-set hash %x, reference RFC-6962 root %x (total %d)", sender.Hash().Bytes(), root, T)
		}
		for _, i := range rapid.SliceOfN(rapid.IntRange(0, T-1), 1, 3).Draw(t, "proof-probe") {
			want := refAunts(items, i)
			g := genuine[i]
			ok := g.Proof.Total == uint64(T) && g.Proof.Index == uint64(i) && bytes.Equal(g.Proof.LeafHash, refLeaf(items[i])) && len(g.Proof.Aunts) == len(want)
			for k := 0; ok && k < len(want); k++ {
				ok = bytes.Equal(want[k], g.Proof.Aunts[k])
			}
			if !ok {
				ev.Violation(t, "merkle.proof-differs-from-reference", ct(), "proof of part %d/%d differs from the reference audit path", i, T)
			}
		}

		// ---- another block's parts with the same part size (same transactions and commit, other header time)
		oh := gb.b.Header()
		oh.Time = oh.Time.Add(time.Duration(rapid.IntRange(1, 1000).Draw(t, "other-dt")))
		ob := types.NewBlock(oh, gb.b.Transactions(), gb.b.LastCommit(), gb.b.Evidence().Evidence, hasher())
		ops := ob.MakePartSet(partSize)
		other := make([]*types.Part, ops.Total())
		for i := range other {
			other[i] = ops.GetPart(i)
		}

		// ---- a header that claims another total for the same hash. No data exists for it (its list would collide with
		// the real one), so whatever is offered the set must never report itself complete. (Single parts may be
		// accepted: the audit path of part 0 of a 7-part tree is also a valid path in a 6-part tree.)
		foreign := 0
		if rapid.IntRange(0, 2).Draw(t, "foreign") == 0 {
			Tf := rapid.SampledFrom([]int{1, 2, T - 1, T + 1, T / 2, 2 * T}).Draw(t, "foreign-total")
			if Tf != T && Tf > 0 {
				foreign = 1
				log = append(log, fmt.Sprintf("foreign-total header %d", Tf))
				fs := types.NewPartSetFromHeader(types.PartSetHeader{Total: uint32(Tf), Hash: common.BytesToHash(root)})
				try := func(p *types.Part) {
					ev.Guard(t, ct, func() { fs.AddPart(p) })
				}
				for i := 0; i < T && i < Tf; i++ {
					try(clonePart(genuine[i]))
					p := clonePart(genuine[i])
					p.Proof.Total = uint64(Tf)
					try(p)
				}
				if Tf == 2 && T >= 3 {
					// second pre-image shape: the two children of a subtree root offered as the DATA of a part of a two-part
					// set. Only leaf/inner domain separation tells this apart from the real tree.
					k := refSplit(T)
					rr, lroot := refRoot(items[k:]), refRoot(items[:k])
					k2 := refSplit(k)
					ll, lr := refRoot(items[:k2]), refRoot(items[k2:k])
					forged0 := append(cloneBytes(ll), lr...)
					for _, lh := range [][]byte{refLeaf(forged0), refInner(ll, lr)} {
						try(&types.Part{Index: 0, Bytes: cloneBytes(forged0), Proof: merkle.SimpleProof{Total: 2, Index: 0, LeafHash: lh, Aunts: [][]byte{cloneBytes(rr)}}})
					}
					if T-k >= 2 {
						k3 := refSplit(T - k)
						rl, rrr := refRoot(items[k:k+k3]), refRoot(items[k+k3:])
						forged1 := append(cloneBytes(rl), rrr...)
						for _, lh := range [][]byte{refLeaf(forged1), refInner(rl, rrr)} {
							try(&types.Part{Index: 1, Bytes: cloneBytes(forged1), Proof: merkle.SimpleProof{Total: 2, Index: 1, LeafHash: lh, Aunts: [][]byte{cloneBytes(lroot)}}})
						}
					}
				}
				if fs.IsComplete() {
					ev.Violation(t, "partset.foreign-total-completes", ct(), "a set made from header {total %d, hash of a %d-part set} reports itself complete (count %d)", Tf, T, fs.Count())
				}
			}
		}

		// ---- the receiver's side: arrival schedule
		r := &recvSet{ps: types.NewPartSetFromHeader(sender.Header()), genuine: genuine, items: items, root: root, filled: make([]bool, T), advSeen: make([]bool, T)}
		order := rapid.Permutation(seq(T)).Draw(t, "order")
		advBefore, advTotal, dups := 0, 0, 0
		kindsUsed := map[string]bool{}
		advRate := rapid.SampledFrom([]int{1, 2, 4}).Draw(t, "adv-rate") // 1: before every part … 4: before a quarter
		for n, i := range order {
			nadv := 0
			if T <= 12 || rapid.IntRange(1, advRate).Draw(t, "adv?") == 1 {
				nadv = rapid.IntRange(0, 3).Draw(t, "nadv")
			}
			for a := 0; a < nadv; a++ {
				kind := rapid.SampledFrom(advKinds).Draw(t, "kind")
				p := makeAdversarial(t, kind, i, genuine, other)
				if p == nil || samePart(p, genuine[i]) {
					continue
				}
				log = append(log, fmt.Sprintf("adv %s->%d", kind, i))
				r.offer(t, ct, p, kind)
				advBefore++
				advTotal++
				kindsUsed[kind] = true
			}
			if n > 0 && rapid.IntRange(0, 5).Draw(t, "dup?") == 0 { // a duplicate of a part that has already arrived
				j := order[rapid.IntRange(0, n-1).Draw(t, "dup")]
				log = append(log, fmt.Sprintf("dup %d", j))
				r.offer(t, ct, genuine[j], "duplicate")
				dups++
			}
			log = append(log, fmt.Sprintf("gen %d", i))
			r.offer(t, ct, genuine[i], "genuine")
			if rapid.IntRange(0, 7).Draw(t, "adv-after?") == 0 { // adversarial part for a slot that is already filled
				kind := rapid.SampledFrom(advKinds).Draw(t, "kind-after")
				if p := makeAdversarial(t, kind, i, genuine, other); p != nil {
					log = append(log, fmt.Sprintf("adv-after %s->%d", kind, i))
					r.offer(t, ct, p, kind)
					advTotal++
				}
			}
		}
		if !r.ps.IsComplete() {
			ev.Violation(t, "partset.incomplete-after-all-parts", ct(), "every genuine part was offered but the set reports %d of %d", r.ps.Count(), T)
		}

		// ---- read back: whole, and in drawn chunk sizes
		var got []byte
		var err error
		ev.Guard(t, ct, func() { got, err = ioutil.ReadAll(r.ps.GetReader()) })
		if err != nil || !bytes.Equal(got, data) {
			ev.Violation(t, "partset.reassembled-differs", ct(), "ReadAll(GetReader()) returned %d bytes (err %v), the serialized block has %d; equal=%v", len(got), err, len(data), bytes.Equal(got, data))
		}
		chunk := rapid.SampledFrom([]int{1, 7, int(partSize) - 1, int(partSize), int(partSize) + 1, 3 * int(partSize), len(data), len(data) + 5}).Draw(t, "chunk")
		if chunk < 1 {
			chunk = 1
		}
		if len(data)/chunk > 5000 {
			chunk = len(data)/5000 + 1
		}
		log = append(log, fmt.Sprintf("read chunk=%d", chunk))
		var got2 []byte
		ev.Guard(t, ct, func() {
			rd := r.ps.GetReader()
			buf := make([]byte, chunk)
			for guard := 0; guard < 3*len(data)+10; guard++ {
				n, e := rd.Read(buf)
				got2 = append(got2, buf[:n]...)
				if e == io.EOF {
					return
				}
				if e != nil {
					err = e
					return
				}
			}
			err = fmt.Errorf("reader never reported EOF")
		})
		if err != nil || !bytes.Equal(got2, data) {
			ev.Violation(t, "partset.reassembled-differs", ct(), "reading in chunks of %d returned %d bytes (err %v), the serialized block has %d", chunk, len(got2), err, len(data))
		}
		var rb *types.Block
		ev.Guard(t, ct, func() { rb, err = fromWire(got) })
		if err != nil || rb.Hash() != gb.b.Hash() || fpBlock(rb) != fpBlock(gb.b) {
			ev.Violation(t, "partset.decoded-block-differs", ct(), "the block decoded from the reassembled bytes differs from the original (err %v)", err)
		}

		classes := []string{"parts", fmt.Sprintf("nparts=%s", bucket(T)), fmt.Sprintf("lastpart=%s", lastPartClass(len(data), int(partSize)))}
		if partSize == types.BlockPartSizeBytes {
			classes = append(classes, "real-part-size")
		}
		if advBefore > 0 {
			classes = append(classes, "adv-before-genuine")
		}
		if dups > 0 {
			classes = append(classes, "duplicates")
		}
		if foreign > 0 {
			classes = append(classes, "foreign-total-header")
		}
		for k := range kindsUsed {
			ev.Class("adv:" + k)
		}
		ev.ClassN("adversarial-offers", int64(advTotal))
		nontrivial := T >= 3 && advBefore > 0
		ev.Case(nontrivial, ct(), classes...)
		if nontrivial && ev.WantSample("parts") {
			ev.Sample("parts", trimLog(log))
		}
	})
}

func seq(n int) []int {
	o := make([]int, n)
	for i := range o {
		o[i] = i
	}
	return o
}

func bucket(n int) string {
	switch {
	case n <= 1:
		return "1"
	case n == 2:
		return "2"
	case n <= 8:
		return "3-8"
	case n <= 64:
		return "9-64"
	}
	return "65+"
}

func lastPartClass(L, ps int) string {
	switch r := L % ps; {
	case r == 0:
		return "full"
	case r == 1:
		return "1-byte"
	default:
		return "short"
	}
}

func trimLog(log []string) []string {
	if len(log) > 40 {
		return append(append([]string{}, log[:40]...), fmt.Sprintf("… %d more", len(log)-40))
	}
	return log
}
