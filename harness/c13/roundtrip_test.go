package c13

import (
	"bytes"
	"fmt"
	"io/ioutil"
	"strings"
	"testing"

	"github.com/gogo/protobuf/proto"
	"pgregory.net/rapid"

	"github.com/kardiachain/go-kardia/kai/kaidb/memorydb"
	"github.com/kardiachain/go-kardia/kai/rawdb"
	"github.com/kardiachain/go-kardia/lib/common"
	"github.com/kardiachain/go-kardia/lib/crypto"
	kproto "github.com/kardiachain/go-kardia/proto/kardiachain/types"
	"github.com/kardiachain/go-kardia/types"

	"verifharness/internal/ev"
)

// ---------------------------------------------------------------- oracle 2: wire and database round trips

func TestRoundTrips(t *testing.T) {
	rapid.Check(t, func(t *rapid.T) {
		gb := drawBlock(t)
		b := gb.b
		var log []string
		log = append(log, gb.desc)
		ct := func() string { return strings.Join(log, ";") }
		viol := func(key, f string, a ...interface{}) { ev.Violation(t, key, ct(), f, a...) }

		// the proposer's own block is internally consistent
		var err error
		ev.Guard(t, ct, func() { err = b.ValidateBasic(hasher()) })
		if err != nil {
			viol("block.own-block-invalid", "a block built by types.NewBlock fails its own ValidateBasic: %v", err)
		}

		// ---- block over the wire
		bz := blockBytes(t, b)
		var b2 *types.Block
		ev.Guard(t, ct, func() { b2, err = fromWire(bz) })
		if err != nil {
			viol("roundtrip.block.rejected", "BlockFromProto(ToProto(b)) failed: %v", err)
		}
		if b2.Hash() != b.Hash() {
			viol("roundtrip.block.hash", "block hash changed over the wire: %x -> %x", b.Hash().Bytes(), b2.Hash().Bytes())
		}
		if a, c := fpBlock(b), fpBlock(b2); a != c {
			viol("roundtrip.block.content", "block content changed over the wire:\n%s\n%s", a, c)
		}
		if bz2 := blockBytes(t, b2); !bytes.Equal(bz, bz2) {
			viol("roundtrip.block.bytes", "re-encoding the decoded block gives other bytes (%d vs %d)", len(bz), len(bz2))
		}
		if b.LastCommit() != nil && b2.LastCommit().Hash() != b.LastCommit().Hash() {
			viol("roundtrip.commit.hash", "LastCommit hash changed over the wire")
		}
		if b2.Evidence().Hash() != b.Evidence().Hash() {
			viol("roundtrip.evidence.hash", "evidence hash changed over the wire")
		}

		// ---- header
		{
			h := b.Header()
			pbz, _ := h.ToProto().Marshal()
			var ph kproto.Header
			if e := ph.Unmarshal(pbz); e != nil {
				t.Fatalf("harness: %v", e)
			}
			h2, e := types.HeaderFromProto(&ph)
			if e != nil || fpHeader(&h2) != fpHeader(h) || h2.Hash() != h.Hash() || h.Hash() != b.Hash() {
				viol("roundtrip.header", "header changed over the wire (err %v): %s -> %s", e, fpHeader(h), fpHeader(&h2))
			}
		}

		// ---- commit, and every vote it stands for
		if c := b.LastCommit(); c != nil {
			pbz, _ := c.ToProto().Marshal()
			var pc kproto.Commit
			if e := pc.Unmarshal(pbz); e != nil {
				t.Fatalf("harness: %v", e)
			}
			c2, e := types.CommitFromProto(&pc)
			if e != nil || fpCommit(c2) != fpCommit(c) || c2.Hash() != c.Hash() {
				viol("roundtrip.commit", "commit changed over the wire (err %v): %s -> %s", e, fpCommit(c), fpCommit(c2))
			}
			for i, s := range c.Signatures {
				if s.Absent() {
					continue
				}
				v := c.GetVote(uint32(i))
				checkVoteRoundTrip(t, ct, v, gb.vi.set.Validators[i].Address)
				if cs := v.CommitSig(); fpSig(cs) != fpSig(s) {
					viol("roundtrip.commitsig", "Commit.GetVote(%d).CommitSig() differs from the commit's entry: %s vs %s", i, fpSig(cs), fpSig(s))
				}
			}
		}
		// a drawn prevote / precommit of its own (nil or for a block)
		{
			i := rapid.IntRange(0, gb.vi.set.Size()-1).Draw(t, "voter")
			v := &types.Vote{ValidatorAddress: gb.vi.set.Validators[i].Address, ValidatorIndex: uint32(i), Height: uint64(rapid.SampledFrom([]int{1, 2, 300, 1 << 40}).Draw(t, "vh")),
				Round: uint32(rapid.SampledFrom([]int{0, 1, 1 << 31}).Draw(t, "vr")), Timestamp: drawTime(t, "vt"),
				Type: rapid.SampledFrom([]kproto.SignedMsgType{kproto.PrevoteType, kproto.PrecommitType}).Draw(t, "vtype")}
			if rapid.Bool().Draw(t, "vblock") {
				v.BlockID = drawFullBlockID(t, "vid")
			}
			signVote(gb.vi.keys[i], v)
			checkVoteRoundTrip(t, ct, v, v.ValidatorAddress)
		}

		// ---- proposal
		{
			i := rapid.IntRange(0, gb.vi.set.Size()-1).Draw(t, "proposer-key")
			p := &types.Proposal{Height: b.Height(), Round: uint32(rapid.SampledFrom([]int{0, 1, 5}).Draw(t, "pr")), POLRound: uint32(rapid.SampledFrom([]int{0, 1, 4}).Draw(t, "pol")),
				Timestamp: drawTime(t, "pt"), POLBlockID: blockIDOf(b)}
			pp := p.ToProto()
			if e := types.NewDefaultPrivValidator(key(gb.vi.keys[i])).SignProposal(chainID, pp); e != nil {
				t.Fatalf("harness: %v", e)
			}
			p.Signature = pp.Signature
			pbz, _ := p.ToProto().Marshal()
			var q kproto.Proposal
			if e := q.Unmarshal(pbz); e != nil {
				t.Fatalf("harness: %v", e)
			}
			p2, e := types.ProposalFromProto(&q)
			fp := func(x *types.Proposal) string {
				return fmt.Sprintf("%d/%d/%d %s %s %x", x.Height, x.Round, x.POLRound, fpTime(x.Timestamp), fpBlockID(x.POLBlockID), x.Signature)
			}
			if e != nil || fp(p) != fp(p2) {
				viol("roundtrip.proposal", "proposal changed over the wire (err %v): %s -> %s", e, fp(p), fp(p2))
			}
			if !types.VerifySignature(gb.vi.set.Validators[i].Address, crypto.Keccak256(types.ProposalSignBytes(chainID, p2.ToProto())), p2.Signature) {
				viol("roundtrip.proposal.signature", "the proposer's signature no longer verifies after the wire round trip")
			}
		}

		// ---- evidence
		for i, e := range b.Evidence().Evidence {
			pe, err := types.EvidenceToProto(e)
			if err != nil {
				viol("roundtrip.evidence", "EvidenceToProto: %v", err)
			}
			pbz, _ := pe.Marshal()
			var q kproto.Evidence
			if e := q.Unmarshal(pbz); e != nil {
				t.Fatalf("harness: %v", e)
			}
			e2, err := types.EvidenceFromProto(&q)
			if err != nil || fpEvidence(e2) != fpEvidence(e) || e2.Hash() != e.Hash() {
				viol("roundtrip.evidence", "evidence #%d changed over the wire (err %v): %s -> %v", i, err, fpEvidence(e), e2)
			}
		}

		// ---- parts, meta, database
		partSize := uint32(rapid.SampledFrom([]int{types.BlockPartSizeBytes, types.BlockPartSizeBytes, 1000, 300}).Draw(t, "db-part-size"))
		if min := uint32((len(bz) + 299) / 300); partSize < min {
			partSize = min
		}
		parts := b.MakePartSet(partSize)
		id := types.BlockID{Hash: b.Hash(), PartsHeader: parts.Header()}
		log = append(log, fmt.Sprintf("db partSize=%d parts=%d", partSize, parts.Total()))
		for _, i := range rapid.SliceOfN(rapid.IntRange(0, int(parts.Total())-1), 1, 3).Draw(t, "part-probe") {
			p := parts.GetPart(i)
			pp, err := p.ToProto()
			if err != nil {
				viol("roundtrip.part", "Part.ToProto: %v", err)
			}
			pbz, _ := pp.Marshal()
			var q kproto.Part
			if e := q.Unmarshal(pbz); e != nil {
				t.Fatalf("harness: %v", e)
			}
			p2, err := types.PartFromProto(&q)
			if err != nil || !samePart(p, p2) {
				viol("roundtrip.part", "part %d changed over the wire (err %v)", i, err)
			}
			fresh := types.NewPartSetFromHeader(parts.Header())
			if added, err := fresh.AddPart(p2); !added || err != nil {
				viol("roundtrip.part", "part %d is no longer accepted after the wire round trip: added=%v err=%v", i, added, err)
			}
		}
		{
			bm := types.NewBlockMeta(b, parts)
			pbz, _ := bm.ToProto().Marshal()
			var q kproto.BlockMeta
			if e := q.Unmarshal(pbz); e != nil {
				t.Fatalf("harness: %v", e)
			}
			bm2, err := types.BlockMetaFromProto(&q)
			if err != nil || !bm2.BlockID.Equal(id) || fpHeader(bm2.Header) != fpHeader(b.Header()) {
				viol("roundtrip.blockmeta", "block meta changed over the wire (err %v)", err)
			}
		}

		// database: the drawn block plus relabelled copies at neighbouring heights in ONE database (key separation)
		db := memorydb.New()
		type stored struct {
			b     *types.Block
			parts *types.PartSet
			seen  *types.Commit
		}
		var all []stored
		heights := []uint64{b.Height()}
		if b.Height() > 1 { // (a relabelled copy of the initial block would carry an empty commit for a height >= 1, which no caller stores)
			for _, d := range rapid.SliceOfNDistinct(rapid.SampledFrom([]uint64{1, 2, 255, 256, 1 << 32}), 0, 2, func(d uint64) uint64 { return d }).Draw(t, "db-more") {
				heights = append(heights, b.Height()+d)
			}
		}
		for n, h := range heights {
			blk := b
			if n > 0 {
				hd := b.Header()
				hd.Height = h
				hd.LastCommitHash = common.Hash{}
				lc := b.LastCommit()
				if lc != nil {
					lc = types.NewCommit(h-1, lc.Round+uint32(n), lc.BlockID, lc.Signatures)
				}
				blk = types.NewBlock(hd, b.Transactions(), lc, b.Evidence().Evidence, hasher())
			}
			ps := blk.MakePartSet(partSize)
			seen := drawCommit(t, gb.vi, h, types.BlockID{Hash: blk.Hash(), PartsHeader: ps.Header()}, blk.Time(), true)
			ev.Guard(t, ct, func() { rawdb.WriteBlock(db, blk, ps, seen) })
			all = append(all, stored{blk, ps, seen})
			log = append(log, fmt.Sprintf("db write h=%d", h))
		}
		for _, s := range all {
			h := s.b.Height()
			sid := types.BlockID{Hash: s.b.Hash(), PartsHeader: s.parts.Header()}
			var rb *types.Block
			var bm *types.BlockMeta
			var rc, sc *types.Commit
			var rh *types.Header
			ev.Guard(t, ct, func() {
				rb = rawdb.ReadBlock(db, h)
				bm = rawdb.ReadBlockMeta(db, h)
				rh = rawdb.ReadHeader(db, h)
				rc = rawdb.ReadCommit(db, h-1)
				sc = rawdb.ReadSeenCommit(db, h)
			})
			if rb == nil || rb.Hash() != s.b.Hash() || fpBlock(rb) != fpBlock(s.b) {
				viol("db.block", "ReadBlock(%d) differs from what WriteBlock stored", h)
			}
			if bm == nil || !bm.BlockID.Equal(sid) || fpHeader(bm.Header) != fpHeader(s.b.Header()) || bm.Header.Hash() != s.b.Hash() {
				viol("db.blockmeta", "ReadBlockMeta(%d) differs: %v", h, bm)
			}
			if rh == nil || fpHeader(rh) != fpHeader(s.b.Header()) {
				viol("db.header", "ReadHeader(%d) differs", h)
			}
			if lc := s.b.LastCommit(); lc != nil && (h > 1 || rc != nil) {
				if rc == nil || fpCommit(rc) != fpCommit(lc) || rc.Hash() != lc.Hash() {
					viol("db.commit", "ReadCommit(%d) differs from block %d's LastCommit: %s vs %s", h-1, h, fpCommit(rc), fpCommit(lc))
				}
			}
			if sc == nil || fpCommit(sc) != fpCommit(s.seen) || sc.Hash() != s.seen.Hash() {
				viol("db.seencommit", "ReadSeenCommit(%d) differs: %s vs %s", h, fpCommit(sc), fpCommit(s.seen))
			}
			if got := rawdb.ReadCanonicalHash(db, h); got != s.b.Hash() {
				viol("db.canonical-hash", "ReadCanonicalHash(%d) = %x, stored %x", h, got.Bytes(), s.b.Hash().Bytes())
			}
			if hh := rawdb.ReadHeaderHeight(db, s.b.Hash()); hh == nil || *hh != h {
				viol("db.header-height", "ReadHeaderHeight(hash of block %d) = %v", h, hh)
			}
			// stored parts are what block gossip and block sync serve to peers: they must rebuild the block
			recv := types.NewPartSetFromHeader(sid.PartsHeader)
			for i := int(s.parts.Total()) - 1; i >= 0; i-- {
				var p *types.Part
				ev.Guard(t, ct, func() { p = rawdb.ReadBlockPart(db, h, i) })
				if p == nil || !samePart(p, s.parts.GetPart(i)) {
					viol("db.part", "ReadBlockPart(%d,%d) differs from the stored part", h, i)
				}
				if added, err := recv.AddPart(p); !added || err != nil {
					viol("db.part", "stored part (%d,%d) is not accepted by a set made from the stored header: added=%v err=%v", h, i, added, err)
				}
			}
			var p *types.Part
			ev.Guard(t, ct, func() { p = rawdb.ReadBlockPart(db, h, int(s.parts.Total())) })
			if p != nil {
				viol("db.part", "ReadBlockPart(%d,%d) returned a part beyond the total", h, s.parts.Total())
			}
			if got, _ := ioutil.ReadAll(recv.GetReader()); !bytes.Equal(got, blockBytes(t, s.b)) {
				viol("db.part", "parts read back for height %d do not reassemble to the stored block", h)
			}
		}
		// a height that was never written
		miss := heights[0] + 7
		ev.Guard(t, ct, func() {
			if rawdb.ReadBlock(db, miss) != nil || rawdb.ReadBlockMeta(db, miss) != nil || rawdb.ReadSeenCommit(db, miss) != nil || rawdb.ReadBlockPart(db, miss, 0) != nil || rawdb.ReadHeader(db, miss) != nil {
				viol("db.phantom", "reads at height %d, which was never written, returned data", miss)
			}
		})

		classes := []string{"roundtrip", fmt.Sprintf("db-heights=%d", len(heights)), fmt.Sprintf("db-parts=%s", bucket(int(parts.Total())))}
		if b.Height() == 1 {
			classes = append(classes, "initial-height")
		}
		if len(b.Evidence().Evidence) > 0 {
			classes = append(classes, "with-evidence")
		}
		if len(b.Transactions()) > 127 {
			classes = append(classes, "txs>127")
		}
		ev.Case(true, ct(), classes...)
		if ev.WantSample("roundtrip") {
			ev.Sample("roundtrip", trimLog(log))
		}
	})
}

func checkVoteRoundTrip(t *rapid.T, ct func() string, v *types.Vote, addr common.Address) {
	pbz, err := proto.Marshal(v.ToProto())
	if err != nil {
		t.Fatalf("harness: %v", err)
	}
	var q kproto.Vote
	if e := proto.Unmarshal(pbz, &q); e != nil {
		t.Fatalf("harness: %v", e)
	}
	v2, err := types.VoteFromProto(&q)
	if err != nil || fpVote(v2) != fpVote(v) {
		ev.Violation(t, "roundtrip.vote", ct(), "vote changed over the wire (err %v): %s -> %s", err, fpVote(v), fpVote(v2))
	}
	if e := v2.Verify(chainID, addr); e != nil {
		ev.Violation(t, "roundtrip.vote.signature", ct(), "the signature of %s no longer verifies after the wire round trip: %v", fpVote(v), e)
	}
}
