package c08

// Scripted histories: the canonical text of a case (what ev.Case / ev.Violation record) can be parsed back into
// operations and executed without the generator — used by the directed test and to re-run a reported case by hand:
//
//	C08_SCRIPT=/path/to/case.txt [C08_MIN=<finding key>] ./c08.test -test.run TestScript -test.v

import (
	"fmt"
	"math/big"
	"os"
	"strconv"
	"strings"
	"testing"

	"github.com/kardiachain/go-kardia/lib/common"
)

func parseOp(s string) (op, error) {
	s = strings.TrimSpace(s)
	o := op{capLayers: -1}
	if strings.HasPrefix(s, "copy/") {
		o.k = opCopy
		o.variant = int(s[5] - '0')
		inner := s[strings.Index(s, "[")+1 : strings.LastIndex(s, "]")]
		if inner != "" {
			for _, p := range strings.Split(inner, ",") {
				so, err := parseOp(p)
				if err != nil {
					return o, err
				}
				o.sub = append(o.sub, so)
			}
		}
		return o, nil
	}
	f := strings.Fields(s)
	if len(f) == 0 {
		return o, fmt.Errorf("empty op")
	}
	found := false
	for k, n := range kindName {
		if n == f[0] {
			o.k, found = k, true
		}
	}
	if !found {
		return o, fmt.Errorf("unknown op %q", s)
	}
	idx := func(tok string) int { n, _ := strconv.Atoi(tok[1:]); return n }
	kv := func(tok string) string { return tok[strings.Index(tok, "=")+1:] }
	switch o.k {
	case opAddBal, opSubBal, opSetBal:
		o.a = idx(f[1])
		o.amt, _ = new(big.Int).SetString(f[2], 10)
	case opSetNonce:
		o.a = idx(f[1])
		o.n, _ = strconv.ParseUint(f[2], 10, 64)
	case opSetCode:
		o.a, o.code = idx(f[1]), idx(f[2])
	case opSetState, opTransient:
		o.a, o.s, o.v = idx(f[1]), idx(f[2]), idx(f[3])
	case opCreate, opSuicide, opLog, opAclAddr:
		o.a = idx(f[1])
	case opAddRefund, opSubRefund:
		o.n, _ = strconv.ParseUint(f[1], 10, 64)
	case opPreimage:
		o.s, o.code = idx(f[1]), idx(f[2])
	case opAclSlot, opRead:
		o.a, o.s = idx(f[1]), idx(f[2])
	case opPrepare, opSetTxCtx:
		p := strings.Split(f[1], "/")
		o.th = common.HexToHash(p[0])
		o.ti, _ = strconv.Atoi(p[1])
	case opFinalise, opInterRoot:
		o.del = kv(f[1]) == "true"
	case opSetStorage:
		o.a = idx(f[1])
		vs := strings.Fields(strings.Trim(strings.Join(f[2:], " "), "[]"))
		for i := range o.stor {
			o.stor[i], _ = strconv.Atoi(vs[i])
		}
	case opRevert:
		o.j, _ = strconv.Atoi(strings.TrimPrefix(f[1], "->"))
	case opCommit:
		o.del, o.flush, o.fresh = kv(f[1]) == "true", kv(f[2]) == "true", kv(f[3]) == "true"
		o.capLayers, _ = strconv.Atoi(kv(f[4]))
	}
	return o, nil
}

type script struct {
	snaps, quiet, override bool
	ops                    []op
	skipped                int // operations not executed because they would break a caller obligation
}

func parseScript(text string) (*script, error) {
	parts := strings.Split(strings.TrimSpace(text), ";")
	sc := &script{}
	for _, f := range strings.Fields(parts[0]) {
		switch f {
		case "snaps=true":
			sc.snaps = true
		case "quiet=true":
			sc.quiet = true
		case "override=true":
			sc.override = true
		}
	}
	for _, p := range parts[1:] {
		if strings.TrimSpace(p) == "" {
			continue
		}
		o, err := parseOp(p)
		if err != nil {
			return nil, err
		}
		sc.ops = append(sc.ops, o)
	}
	return sc, nil
}

// valid reports whether o respects the caller obligations in the machine's current state.
func (mc *machine) valid(o *op) bool {
	switch o.k {
	case opRevert:
		return o.j >= 1 && o.j < len(mc.frames)
	case opSubBal:
		return o.amount().Cmp(mc.m.acc[o.a].bal) <= 0
	case opSubRefund:
		return o.n <= mc.m.refund
	case opCopy:
		if o.variant == 2 {
			return mc.m.jlen == 0 && len(o.sub) == 1
		}
		mm := mc.m
		mm.st = nil
		for i := range o.sub {
			so := &o.sub[i]
			if so.k == opCommit {
				return i == len(o.sub)-1
			}
			if (so.k == opSubBal && so.amount().Cmp(mm.acc[so.a].bal) > 0) || (so.k == opSubRefund && so.n > mm.refund) {
				return false
			}
			mm.apply(so)
		}
	case opSetStorage:
		return mc.override && len(mc.frames) == 1
	case opFinalise, opInterRoot, opCommit:
		return !mc.override
	}
	return true
}

// recorder is an ev.TB that records the first violation instead of failing.
type recorder struct{ msg string }

type recorded struct{}

func (r *recorder) Helper() {}
func (r *recorder) Fatalf(format string, args ...interface{}) {
	r.msg = fmt.Sprintf(format, args...)
	panic(recorded{})
}

// runScript executes a script; invalid operations are skipped. It returns the violation message ("" if none).
func runScript(sc *script) (msg string) {
	rec := &recorder{}
	mc := newMachine(rec, sc.snaps, sc.quiet, sc.override)
	defer mc.release()
	defer func() {
		if r := recover(); r != nil {
			if _, ok := r.(recorded); ok {
				msg = rec.msg
				return
			}
			if _, ok := r.(abandon); ok {
				msg = "abandoned (known finding)"
				return
			}
			panic(r)
		}
	}()
	for _, o := range sc.ops {
		if !mc.valid(&o) {
			sc.skipped++
			continue
		}
		mc.exec(o)
	}
	mc.checkFrozen()
	return ""
}

func scriptText(sc *script) string {
	p := []string{fmt.Sprintf("snaps=%v quiet=%v override=%v", sc.snaps, sc.quiet, sc.override)}
	for _, o := range sc.ops {
		p = append(p, o.String())
	}
	return strings.Join(p, ";")
}

func TestScript(t *testing.T) {
	path := os.Getenv("C08_SCRIPT")
	if path == "" {
		t.Skip("C08_SCRIPT not set")
	}
	b, err := os.ReadFile(path)
	if err != nil {
		t.Fatal(err)
	}
	sc, err := parseScript(string(b))
	if err != nil {
		t.Fatal(err)
	}
	msg := runScript(sc)
	t.Logf("result: %s", msg)
	key := os.Getenv("C08_MIN")
	if key == "" || !strings.Contains(msg, "key="+key) {
		return
	}
	// greedy one-at-a-time removal while the same key still fires
	for changed := true; changed; {
		changed = false
		for i := 0; i < len(sc.ops); i++ {
			cand := &script{sc.snaps, sc.quiet, sc.override, append(append([]op{}, sc.ops[:i]...), sc.ops[i+1:]...), 0}
			if m := runScript(cand); strings.Contains(m, "key="+key) {
				sc, msg, changed = cand, m, true
				i--
			}
		}
	}
	t.Logf("minimal: %s\n%s", scriptText(sc), msg)
}
