// C08 — state changes are atomic: revert restores exactly; the committed root depends on content only.
//
// One rapid state machine drives a go-kardia StateDB through every mutator, nested Snapshot/RevertToSnapshot,
// Finalise/IntermediateRoot/Commit(+reopen), Copy and transaction boundaries over a 4-address × 4-slot universe and
// decides with four independent oracles:
//
//	replay    after EVERY revert and before every commit: a fresh StateDB on the same committed pre-state, to which only
//	          the non-reverted operations are applied, is indistinguishable through every getter and yields the same
//	          IntermediateRoot / Commit roots                                                     (keys replay.*)
//	model     a plain-map reference model predicts every getter                                   (keys model.*)
//	geth      go-ethereum v1.9.15 core/state executes the same history incl. its own journal      (keys geth.*)
//	content   the root is recomputed from the model's content alone with go-ethereum's trie+rlp   (key  root.content-only)
//	copy      equality at copy time, independence in both directions                              (keys copy.*)
//	readback  state.New(root) over the live trie database, over the snapshot layers, over a fresh database on the flushed
//	          disk; walk of the committed tries and of the snapshot iterators                     (keys readback.*)
package c08

import (
	"fmt"
	"math/big"
	"os"
	"sort"
	"strings"
	"testing"

	gcommon "github.com/ethereum/go-ethereum/common"
	grawdb "github.com/ethereum/go-ethereum/core/rawdb"
	gstate "github.com/ethereum/go-ethereum/core/state"
	"pgregory.net/rapid"

	"github.com/kardiachain/go-kardia/kai/kaidb"
	"github.com/kardiachain/go-kardia/kai/kaidb/memorydb"
	"github.com/kardiachain/go-kardia/kai/state"
	"github.com/kardiachain/go-kardia/kai/state/snapshot"
	"github.com/kardiachain/go-kardia/lib/common"
	"github.com/kardiachain/go-kardia/types"

	"verifharness/internal/ev"
)

func TestMain(m *testing.M) {
	ev.Init("C08")
	rc := m.Run()
	ev.Flush()
	os.Exit(rc)
}

type frame struct {
	id, gid int
	msnap   model
	ops     []op
	kinds   map[string]bool
}

type frozenCopy struct {
	s    *state.StateDB
	d    *obs
	txs  []common.Hash
	what string
}

type caseStats struct {
	reverts, crossed2, maxDepth                   int
	createOver, resurrect, emptyDeleted, suicided int
	commits, flushes, caps, freshDBs              int
	copies                                        [3]int
	kinds                                         map[string]int // journal-entry kinds crossed by some revert
}

type abandon struct{}

type machine struct {
	t                          ev.TB
	disk                       kaidb.Database
	db                         state.Database
	snaps                      *snapshot.Tree
	allSnaps                   []*snapshot.Tree
	withSnaps, quiet, override bool
	A                          *state.StateDB
	base                       common.Hash
	frames                     []frame
	m                          model
	gdb                        gstate.Database
	G                          *gstate.StateDB
	txs                        []common.Hash
	frozen                     []frozenCopy
	log                        []string
	blockNo                    uint64
	txNo                       int
	st                         *caseStats
}

func (mc *machine) text() string { return strings.Join(mc.log, ";") }

func (mc *machine) guard(f func()) { ev.Guard(mc.t, mc.text, f) }

func (mc *machine) violation(key, format string, args ...interface{}) {
	if ev.Violation(mc.t, key, mc.text(), format, args...) {
		panic(abandon{}) // listed known finding: set the case aside
	}
}

var snapCfg = snapshot.Config{CacheSize: 1, AsyncBuild: false}

// C08_OFF=model,geth,content switches oracles off (sensitivity experiments only: which oracle catches a mutant alone).
var off = func() map[string]bool {
	m := map[string]bool{}
	for _, k := range strings.Split(os.Getenv("C08_OFF"), ",") {
		m[k] = true
	}
	return m
}()

func newMachine(t ev.TB, withSnaps, quiet, override bool) *machine {
	mc := &machine{t: t, withSnaps: withSnaps, quiet: quiet, override: override, st: &caseStats{kinds: map[string]int{}}}
	mc.disk = memorydb.New()
	mc.db = state.NewDatabase(mc.disk)
	mc.m = newModel()
	mc.m.st = mc.st
	mc.log = append(mc.log, fmt.Sprintf("snaps=%v quiet=%v override=%v", withSnaps, quiet, override))
	if withSnaps {
		mc.newTree(types.EmptyRootHash)
	}
	if !override {
		mc.gdb = gstate.NewDatabase(grawdb.NewMemoryDatabase())
		g, err := gstate.New(gcommon.Hash{}, mc.gdb, nil)
		if err != nil {
			t.Fatalf("geth state: %v", err)
		}
		mc.G = g
	}
	mc.open(types.EmptyRootHash)
	return mc
}

func (mc *machine) newTree(root common.Hash) {
	var tr *snapshot.Tree
	var err error
	mc.guard(func() { tr, err = snapshot.New(snapCfg, mc.disk, mc.db.TrieDB(), root) })
	if err != nil || tr == nil {
		mc.t.Fatalf("snapshot.New(%x): %v", root, err)
	}
	mc.snaps = tr
	mc.allSnaps = append(mc.allSnaps, tr)
}

func (mc *machine) release() {
	for _, tr := range mc.allSnaps {
		tr.VerifReleaseCache()
		// a finished generator goroutine waits for an abort request for ever; Disable sends one (cleanup only)
		ev.Try(func() { tr.Disable() })
	}
}

func (mc *machine) openOn(root common.Hash, db state.Database, snaps *snapshot.Tree) *state.StateDB {
	var s *state.StateDB
	var err error
	mc.guard(func() { s, err = state.New(root, db, snaps) })
	if err != nil {
		mc.violation("readback.open-error", "state.New(%x) on a committed root failed: %v", root, err)
		panic(abandon{})
	}
	return s
}

func (mc *machine) open(root common.Hash) {
	mc.A = mc.openOn(root, mc.db, mc.snaps)
	mc.base = root
	mc.frames = []frame{{kinds: map[string]bool{}}}
	mc.txs = []common.Hash{{}}
}

func (mc *machine) flatten() {
	for i := 1; i < len(mc.frames); i++ {
		mc.frames[0].ops = append(mc.frames[0].ops, mc.frames[i].ops...)
	}
	mc.frames = mc.frames[:1]
}

// ---------------------------------------------------------------- oracles

func (mc *machine) checkAll(where string) *obs {
	var oa *obs
	mc.guard(func() { oa = observeK(mc.A, mc.txs) })
	om := mc.m.observe()
	if f, d := oa.diff(om); f != "" && !off["model"] {
		mc.violation("model."+f, "%s: StateDB vs reference model: %s", where, d)
	}
	if mc.G != nil && !off["geth"] {
		og := observeG(mc.G, oa)
		if f, d := oa.diff(og); f != "" {
			mc.violation("geth."+f, "%s: go-kardia StateDB vs go-ethereum v1.9.15 StateDB on the same history: %s", where, d)
		}
	}
	return oa
}

// replay builds a fresh state on the committed pre-state of the current segment and applies only the non-reverted
// operations; oa (may be nil) is the observation of the history under test.
func (mc *machine) replay(where string, oa *obs) *state.StateDB {
	C := mc.openOn(mc.base, mc.db, nil)
	for _, fr := range mc.frames {
		for i := range fr.ops {
			o := &fr.ops[i]
			var r common.Hash
			mc.guard(func() { r = applyK(C, o) })
			if o.k == opInterRoot && r != o.root {
				mc.violation("replay.intermediate-root", "%s: IntermediateRoot of the history with reverts was %x; a fresh state with only the non-reverted operations gives %x at the same point (%s)", where, o.root, r, o)
			}
		}
	}
	if oa != nil {
		var oc *obs
		mc.guard(func() { oc = observeK(C, mc.txs) })
		if f, d := oa.diff(oc); f != "" {
			mc.violation("replay."+f, "%s: history with reverts vs fresh state with only the non-reverted operations: %s", where, d)
		}
	}
	return C
}

// ---------------------------------------------------------------- execution

func (mc *machine) exec(o op) {
	mc.log = append(mc.log, o.String())
	switch o.k {
	case opSnapshot:
		fr := frame{msnap: mc.m, kinds: map[string]bool{}}
		mc.guard(func() { fr.id = mc.A.Snapshot() })
		if mc.G != nil {
			fr.gid = mc.G.Snapshot()
		}
		mc.frames = append(mc.frames, fr)
		if d := len(mc.frames) - 1; d > mc.st.maxDepth {
			mc.st.maxDepth = d
		}
	case opRevert:
		fr := mc.frames[o.j]
		mc.guard(func() { mc.A.RevertToSnapshot(fr.id) })
		if mc.G != nil {
			mc.G.RevertToSnapshot(fr.gid)
		}
		st := mc.m.st
		mc.m = fr.msnap
		mc.m.st = st
		crossed := map[string]bool{}
		for _, f := range mc.frames[o.j:] {
			for k := range f.kinds {
				crossed[k] = true
			}
		}
		mc.frames = mc.frames[:o.j]
		mc.st.reverts++
		if len(crossed) >= 2 {
			mc.st.crossed2++
		}
		for k := range crossed {
			mc.st.kinds[k]++
		}
		if !mc.quiet {
			oa := mc.checkAll("after revert")
			mc.replay("after revert", oa)
		}
	case opCommit:
		mc.commit(o)
	case opCopy:
		mc.copy(o)
	case opRead:
		mc.read(o)
	default:
		mc.mut(o)
	}
}

func (mc *machine) mut(o op) {
	if o.k == opFinalise || o.k == opInterRoot {
		mc.flatten()
	}
	mc.guard(func() { o.root = applyK(mc.A, &o) })
	existed := mc.m.acc[o.a].exists
	kinds := mc.m.apply(&o)
	if mc.G != nil {
		reset := false
		for _, k := range kinds {
			reset = reset || k == "reset"
		}
		gr := applyG(mc.G, &o, reset, existed)
		if o.k == opInterRoot && common.Hash(gr) != o.root && !off["geth"] {
			mc.violation("geth.intermediate-root", "IntermediateRoot(%v) = %x, go-ethereum v1.9.15 on the same history gives %x", o.del, o.root, gr)
		}
	}
	if o.k == opInterRoot {
		if cr := contentRoot(&mc.m); cr != o.root && !off["content"] {
			mc.violation("root.content-only", "IntermediateRoot(%v) = %x, root recomputed from the content alone = %x\ncontent:\n%s", o.del, o.root, cr, wantContent(&mc.m))
		}
	}
	if o.k == opPrepare || o.k == opSetTxCtx {
		mc.txs = append(mc.txs, o.th)
	}
	fr := &mc.frames[len(mc.frames)-1]
	fr.ops = append(fr.ops, o)
	for _, k := range kinds {
		fr.kinds[k] = true
	}
	if (o.k == opFinalise || o.k == opInterRoot) && !mc.quiet {
		mc.checkAll("after " + o.String())
	}
}

func (mc *machine) commit(o op) {
	if mc.withSnaps {
		// Real chains never return to an earlier state root (nonces only grow) and the snapshot tree is keyed by root:
		// committing R0 -> R1 -> R0 links a layer below itself and Tree.Cap then recurses until the stack overflows
		// (seen when this bump was switched off; same in upstream). Unique roots are a caller invariant, so the
		// generator keeps them unique with a block-counter account.
		mc.blockNo++
		mc.mut(op{k: opSetNonce, a: NA, n: mc.blockNo})
	}
	mc.flatten()
	var oa *obs
	if !mc.quiet {
		oa = mc.checkAll("before commit")
	}
	C := mc.replay("before commit", oa)
	var rootA, rootC common.Hash
	var err, errC error
	mc.guard(func() { rootA, err = mc.A.Commit(o.del) })
	if err != nil {
		mc.violation("commit.error", "Commit(%v): %v", o.del, err)
	}
	mc.guard(func() { rootC, errC = C.Commit(o.del) })
	if errC != nil || rootC != rootA {
		mc.violation("replay.commit-root", "Commit root of the history with reverts = %x; fresh state with only the non-reverted operations commits to %x (%v)", rootA, rootC, errC)
	}
	mc.m.finalise(o.del)
	if cr := contentRoot(&mc.m); cr != rootA && !off["content"] {
		mc.violation("root.content-only", "Commit(%v) = %x, root recomputed from the content alone = %x\ncontent:\n%s", o.del, rootA, cr, wantContent(&mc.m))
	}
	var rootG gcommon.Hash
	if mc.G != nil {
		var gerr error
		rootG, gerr = mc.G.Commit(o.del)
		if gerr != nil {
			mc.t.Fatalf("geth commit: %v", gerr)
		}
		if common.Hash(rootG) != rootA && !off["geth"] {
			mc.violation("geth.commit-root", "Commit(%v) = %x, go-ethereum v1.9.15 on the same history commits to %x", o.del, rootA, rootG)
		}
	}
	mc.st.commits++
	if o.flush {
		var ferr error
		mc.guard(func() { ferr = mc.db.TrieDB().Commit(rootA, false) })
		if ferr != nil {
			mc.violation("readback.flush-error", "trie database Commit(%x): %v", rootA, ferr)
		}
		mc.st.flushes++
	}
	if mc.snaps != nil && o.capLayers >= 0 {
		var cerr error
		mc.guard(func() { cerr = mc.snaps.Cap(rootA, o.capLayers) })
		if cerr != nil && !strings.Contains(cerr.Error(), "is disk layer") {
			mc.violation("readback.snapshot-cap-error", "snapshot Cap(%x, %d): %v", rootA, o.capLayers, cerr)
		}
		mc.st.caps++
	}
	mc.m.reopen()
	mc.readback(rootA, o)
	if mc.G != nil {
		g, gerr := gstate.New(rootG, mc.gdb, nil)
		if gerr != nil {
			mc.t.Fatalf("geth reopen: %v", gerr)
		}
		mc.G = g
	}
	mc.open(rootA)
}

func (mc *machine) readback(root common.Hash, o op) {
	om := mc.m.observe()
	want := wantContent(&mc.m)
	cmp := func(s *state.StateDB, key, what string) {
		var or *obs
		mc.guard(func() { or = observeK(s, nil) })
		if f, d := or.diff(om); f != "" {
			mc.violation(key+"."+f, "state.New(%x) %s does not return what was committed: %s", root, what, d)
		}
	}
	rt := mc.openOn(root, mc.db, nil)
	cmp(rt, "readback.trie", "through the trie")
	var pmsg string
	mc.guard(func() { pmsg = checkProofs(rt, root, &mc.m, int(mc.blockNo+uint64(mc.st.commits))%NS) })
	if pmsg != "" {
		mc.violation("readback.proof", "state.New(%x): %s", root, pmsg)
	}
	walkDB := mc.db
	if o.flush {
		fdb := state.NewDatabase(mc.disk)
		cmp(mc.openOn(root, fdb, nil), "readback.disk", "through a fresh database over the flushed disk")
		walkDB = fdb
	}
	var got string
	var err error
	mc.guard(func() { got, err = walkTries(walkDB, root) })
	if err != nil {
		mc.violation("readback.walk-error", "walking the committed tries below %x: %v", root, err)
	} else if got != want {
		mc.violation("readback.walk-content", "committed tries below %x hold\n%s\nwritten content is\n%s", root, got, want)
	}
	if mc.snaps != nil {
		if mc.snaps.Snapshot(root) == nil {
			mc.violation("readback.snapshot-layer-missing", "Commit on a snapshot-backed state left no snapshot layer for root %x", root)
		}
		cmp(mc.openOn(root, mc.db, mc.snaps), "readback.snapshot", "through the snapshot layers")
		mc.guard(func() { got, err = walkSnapshot(mc.snaps, root) })
		if err != nil {
			mc.violation("readback.snapshot-iter-error", "iterating the snapshot layers of %x: %v", root, err)
		} else if got != want {
			mc.violation("readback.snapshot-iter-content", "snapshot layers of %x hold\n%s\nwritten content is\n%s", root, got, want)
		}
	}
	if o.flush && o.fresh {
		// node restart: everything in memory is gone, only the disk survives
		mc.db = walkDB
		if mc.snaps != nil {
			// two snapshot trees must not share one disk: the copies left behind still read through the old tree, whose
			// disk records the rebuild below replaces — judge them now and let them go
			mc.checkFrozen()
			mc.frozen = nil
			mc.newTree(root) // no journal was written: the tree is regenerated from the flushed trie
			cmp(mc.openOn(root, mc.db, mc.snaps), "readback.snapshot-rebuilt", "through a snapshot tree rebuilt after restart")
		}
		mc.st.freshDBs++
	}
}

func (mc *machine) copy(o op) {
	var before, oc *obs
	var cp *state.StateDB
	mc.guard(func() { before = observeK(mc.A, mc.txs) })
	midTx := mc.m.jlen > 0
	mc.guard(func() { cp = mc.A.Copy() })
	mc.guard(func() { oc = observeK(cp, mc.txs) })
	oc.TxIndex = before.TxIndex // the transaction context is not part of the world state; Copy does not carry it
	if f, d := before.diff(oc); f != "" {
		mc.violation("copy.not-equal."+f, "a fresh Copy differs from the original: %s", d)
	}
	mc.st.copies[o.variant]++
	switch o.variant {
	case 0: // mutate the copy, the original must not move
		mm := mc.m
		mm.st = nil
		mm.th, mm.ti = common.Hash{}, 0
		txs := append([]common.Hash{}, mc.txs...)
		modelValid := true
		for i := range o.sub {
			so := &o.sub[i]
			if so.k == opCommit {
				mc.guard(func() { cp.Commit(so.del) })
				modelValid = false
				break
			}
			mc.guard(func() { applyK(cp, so) })
			mm.apply(so)
			if so.k == opPrepare || so.k == opSetTxCtx {
				txs = append(txs, so.th)
			}
			if (so.k == opFinalise || so.k == opInterRoot) && midTx {
				// a copy taken in the middle of a transaction has no journal: what its Finalise does with the
				// accounts dirtied before the copy is not specified (callers copy between transactions only)
				modelValid = false
			}
		}
		if modelValid {
			var od *obs
			mc.guard(func() { od = observeK(cp, txs) })
			if f, d := od.diff(mm.observe()); f != "" {
				mc.violation("copy.diverges."+f, "operations applied to a Copy do not behave as on the original (vs reference model): %s", d)
			}
		}
		var after *obs
		mc.guard(func() { after = observeK(mc.A, mc.txs) })
		if f, d := before.diff(after); f != "" {
			mc.violation("copy.not-independent."+f, "mutating a Copy changed the original: %s", d)
		}
	case 1: // keep the copy untouched while the original moves on
		mc.frozen = append(mc.frozen, frozenCopy{cp, oc, append([]common.Hash{}, mc.txs...), "the original moved on after Copy"})
	case 2: // continue on the copy (taken between transactions), the original stays behind
		mc.flatten()
		mc.frozen = append(mc.frozen, frozenCopy{mc.A, before, append([]common.Hash{}, mc.txs...), "the history continued on a Copy"})
		mc.A = cp
		if mc.G != nil {
			mc.G = mc.G.Copy()
		}
		mc.mut(o.sub[0]) // callers set the transaction context on the copy before using it
	}
}

func (mc *machine) checkFrozen() {
	for _, f := range mc.frozen {
		var now *obs
		mc.guard(func() { now = observeK(f.s, f.txs) })
		now.TxIndex = f.d.TxIndex
		if fld, d := f.d.diff(now); fld != "" {
			mc.violation("copy.not-independent."+fld, "%s and the side left behind changed: %s", f.what, d)
		}
	}
}

func (mc *machine) read(o op) {
	a, k := addrs[o.a], slots[o.s]
	ac := &mc.m.acc[o.a]
	var st, cst common.Hash
	var bal *big.Int
	var ex bool
	mc.guard(func() {
		cst = mc.A.GetCommittedState(a, k)
		st = mc.A.GetState(a, k)
		bal = mc.A.GetBalance(a)
		ex = mc.A.Exist(a)
	})
	switch {
	case off["model"]:
	case st != vals[ac.st[o.s]]:
		mc.violation("model.storage", "GetState(a%d,s%d)=%x, model %x", o.a, o.s, st, vals[ac.st[o.s]])
	case cst != vals[ac.cst[o.s]]:
		mc.violation("model.committed-storage", "GetCommittedState(a%d,s%d)=%x, model %x", o.a, o.s, cst, vals[ac.cst[o.s]])
	case bal.Cmp(ac.bal) != 0:
		mc.violation("model.balance", "GetBalance(a%d)=%v, model %v", o.a, bal, ac.bal)
	case ex != ac.exists:
		mc.violation("model.exist", "Exist(a%d)=%v, model %v", o.a, ex, ac.exists)
	}
}

// ---------------------------------------------------------------- generators

var amounts = []*big.Int{big.NewInt(0), big.NewInt(0), big.NewInt(1), big.NewInt(2), big.NewInt(3), new(big.Int).Lsh(big.NewInt(1), 100)}

// genMut draws one StateDB mutator that real callers may issue in the model's current state (SubBalance never exceeds
// the balance, SubRefund never exceeds the counter — both are caller obligations).
func genMut(t *rapid.T, m *model) op {
	o := op{a: rapid.IntRange(0, NA-1).Draw(t, "a"), capLayers: -1}
	w := uni(t, 70, "mut")
	switch {
	case w < 6:
		o.k, o.amt = opAddBal, rapid.SampledFrom(amounts).Draw(t, "amt")
	case w < 10:
		o.k = opSubBal
		bal := m.acc[o.a].bal
		switch c := rapid.IntRange(0, 2).Draw(t, "sub"); {
		case c == 1 && bal.Sign() > 0:
			o.amt = big.NewInt(1)
		case c == 2:
			o.amt = bal
		default:
			o.amt = big0
		}
	case w < 14:
		o.k, o.amt = opSetBal, rapid.SampledFrom(amounts).Draw(t, "amt")
	case w < 19:
		o.k, o.n = opSetNonce, rapid.SampledFrom([]uint64{0, 0, 1, 2, 1 << 63}).Draw(t, "n")
	case w < 25:
		o.k, o.code = opSetCode, rapid.IntRange(0, len(codes)-1).Draw(t, "code")
	case w < 39:
		o.k, o.s, o.v = opSetState, rapid.IntRange(0, NS-1).Draw(t, "s"), rapid.IntRange(0, len(vals)-1).Draw(t, "v")
		if rapid.IntRange(0, 3).Draw(t, "clear") == 0 {
			o.v = 0
		}
	case w < 45:
		o.k = opCreate
	case w < 51:
		o.k = opSuicide
	case w < 54:
		o.k, o.n = opAddRefund, uint64(rapid.IntRange(0, 3).Draw(t, "n"))
	case w < 56:
		if m.refund == 0 {
			o.k, o.n = opAddRefund, 2
		} else {
			o.k, o.n = opSubRefund, uint64(rapid.IntRange(0, int(min64(m.refund, 3))).Draw(t, "n"))
		}
	case w < 59:
		o.k = opLog
	case w < 61:
		o.k, o.s, o.code = opPreimage, rapid.IntRange(0, NS-1).Draw(t, "s"), rapid.IntRange(0, len(codes)-1).Draw(t, "code")
	case w < 63:
		o.k = opAclAddr
	case w < 66:
		o.k, o.s = opAclSlot, rapid.IntRange(0, NS-1).Draw(t, "s")
	default:
		o.k, o.s, o.v = opTransient, rapid.IntRange(0, NS-1).Draw(t, "s"), rapid.IntRange(0, 3).Draw(t, "v")
	}
	return o
}

// uni draws a uniformly distributed integer in [0, n). rapid's integer generators favour small values (a geometric
// bit-length distribution), which is wrong for operation weights; Bool is a fair coin.
func uni(t *rapid.T, n int, label string) int {
	for {
		v := 0
		for b := 1; b < n; b <<= 1 {
			v <<= 1
			if rapid.Bool().Draw(t, label) {
				v |= 1
			}
		}
		if v < n {
			return v
		}
	}
}

func min64(a, b uint64) uint64 {
	if a < b {
		return a
	}
	return b
}

func (mc *machine) genPrepare(t *rapid.T) op {
	mc.txNo++
	k := opPrepare
	if rapid.Bool().Draw(t, "txctx") {
		k = opSetTxCtx
	}
	return op{k: k, th: common.BytesToHash([]byte{0x7a, byte(mc.txNo >> 8), byte(mc.txNo)}), ti: mc.txNo % 5, capLayers: -1}
}

func (mc *machine) genCommit(t *rapid.T) op {
	o := op{k: opCommit, del: rapid.IntRange(0, 3).Draw(t, "del") != 0, capLayers: -1}
	o.flush = rapid.IntRange(0, 2).Draw(t, "flush") == 0
	o.fresh = o.flush && rapid.IntRange(0, 2).Draw(t, "fresh") == 0
	if mc.withSnaps {
		o.capLayers = rapid.SampledFrom([]int{-1, -1, 0, 0, 1, 2}).Draw(t, "cap")
	}
	return o
}

// genStep draws the next machine step(s).
func (mc *machine) genStep(t *rapid.T) []op {
	w := uni(t, 64, "step")
	fin := func(k opKind) []op {
		ops := []op{{k: k, del: rapid.IntRange(0, 3).Draw(t, "del") != 0, capLayers: -1}}
		if rapid.IntRange(0, 9).Draw(t, "newtx") < 7 {
			ops = append(ops, mc.genPrepare(t))
		}
		return ops
	}
	switch {
	case w < 32:
		return []op{genMut(t, &mc.m)}
	case w < 40:
		return []op{{k: opSnapshot}}
	case w < 47:
		if len(mc.frames) < 2 {
			return []op{{k: opSnapshot}}
		}
		return []op{{k: opRevert, j: rapid.IntRange(1, len(mc.frames)-1).Draw(t, "to")}}
	case w < 51:
		return fin(opFinalise)
	case w < 53:
		return fin(opInterRoot)
	case w < 55:
		return []op{mc.genCommit(t)}
	case w < 59:
		return mc.genCopy(t)
	case w < 61:
		return []op{{k: opRead, a: rapid.IntRange(0, NA-1).Draw(t, "a"), s: rapid.IntRange(0, NS-1).Draw(t, "s")}}
	default:
		// self-destruct, then (in the same or in the next transaction) bring the account back
		a := rapid.IntRange(0, NA-1).Draw(t, "a")
		ops := []op{{k: opSuicide, a: a}}
		if rapid.Bool().Draw(t, "nexttx") {
			ops = append(ops, op{k: opFinalise, del: true})
		}
		switch rapid.IntRange(0, 2).Draw(t, "back") {
		case 0:
			ops = append(ops, op{k: opCreate, a: a})
		case 1:
			ops = append(ops, op{k: opSetState, a: a, s: rapid.IntRange(0, NS-1).Draw(t, "s"), v: 1})
		default:
			ops = append(ops, op{k: opAddBal, a: a, amt: big.NewInt(1)})
		}
		return ops
	}
}

func (mc *machine) genCopy(t *rapid.T) []op {
	o := op{k: opCopy, variant: rapid.IntRange(0, 2).Draw(t, "variant"), capLayers: -1}
	var pre []op
	switch o.variant {
	case 0:
		mm := mc.m
		mm.st = nil
		n := rapid.IntRange(1, 6).Draw(t, "nsub")
		for i := 0; i < n; i++ {
			var so op
			switch c := rapid.IntRange(0, 11).Draw(t, "sub"); {
			case c == 0:
				so = op{k: opFinalise, del: rapid.Bool().Draw(t, "del")}
			case c == 1:
				so = op{k: opInterRoot, del: rapid.Bool().Draw(t, "del")}
			case c == 2:
				so = op{k: opCommit, del: rapid.Bool().Draw(t, "del")}
			case c == 3:
				so = mc.genPrepare(t)
			default:
				so = genMut(t, &mm)
			}
			o.sub = append(o.sub, so)
			if so.k == opCommit {
				break
			}
			mm.apply(&so)
		}
	case 1:
		if len(mc.frozen) >= 2 {
			o.variant = 0
			o.sub = []op{genMut(t, &mc.m)}
		}
	case 2:
		// callers copy between transactions: end the transaction first if one is open
		if mc.m.jlen > 0 {
			pre = append(pre, op{k: opFinalise, del: rapid.IntRange(0, 3).Draw(t, "del") != 0})
		}
		o.sub = []op{mc.genPrepare(t)}
	}
	return append(pre, o)
}

// ---------------------------------------------------------------- the state-machine test

func (mc *machine) finish(t *rapid.T) {
	mc.checkFrozen()
	st := mc.st
	classes := []string{}
	add := func(c bool, name string) {
		if c {
			classes = append(classes, name)
		}
	}
	add(mc.withSnaps, "snapshot-tree")
	add(!mc.withSnaps, "trie-only")
	add(mc.quiet, "quiet(no intermediate reads)")
	add(st.reverts > 0, "revert")
	add(st.crossed2 > 0, "revert-crossed>=2-journal-kinds")
	add(st.maxDepth >= 3, "nesting>=3")
	add(st.createOver > 0, "create-over-existing")
	add(st.resurrect > 0, "suicide-then-recreate")
	add(st.emptyDeleted > 0, "empty-account-deleted")
	add(st.suicided > 0, "suicided-account-deleted")
	add(st.commits > 1, "mid-history-commit")
	add(st.flushes > 0, "flush-to-disk")
	add(st.caps > 0, "snapshot-cap")
	add(st.freshDBs > 0, "restart-on-disk")
	add(st.copies[0] > 0, "copy-mutated")
	add(st.copies[1] > 0, "copy-frozen")
	add(st.copies[2] > 0, "copy-continued")
	var ks []string
	for k := range st.kinds {
		ks = append(ks, k)
	}
	sort.Strings(ks)
	for _, k := range ks {
		classes = append(classes, "revert-crossed:"+k)
	}
	nontrivial := st.crossed2 > 0 || st.createOver > 0 || st.resurrect > 0
	txt := mc.text()
	ev.Case(nontrivial, txt, classes...)
	if nontrivial {
		for _, c := range []string{"create-over-existing", "suicide-then-recreate", "copy-continued", "snapshot-tree"} {
			for _, have := range classes {
				if have == c && ev.WantSample(c) {
					ev.Sample(c, txt)
					return
				}
			}
		}
	}
}

func runCase(t *rapid.T, mc *machine, body func()) {
	defer mc.release()
	defer func() {
		if r := recover(); r != nil {
			if _, ok := r.(abandon); ok {
				ev.Case(false, mc.text(), "abandoned-known-finding")
				return
			}
			panic(r)
		}
	}()
	body()
}

func TestStateMachine(t *testing.T) {
	maxSteps := ev.Scale("STEPS", 50)
	rapid.Check(t, func(t *rapid.T) {
		withSnaps := uni(t, 10, "snaps") < 4
		quiet := uni(t, 10, "quiet") < 2
		mc := newMachine(t, withSnaps, quiet, false)
		runCase(t, mc, func() {
			// committed pre-state
			if npre := rapid.IntRange(0, 8).Draw(t, "npre"); npre > 0 {
				for i := 0; i < npre; i++ {
					mc.exec(genMut(t, &mc.m))
				}
				mc.exec(op{k: opCommit, del: rapid.IntRange(0, 2).Draw(t, "predel") != 0, capLayers: -1, flush: rapid.Bool().Draw(t, "preflush")})
			}
			if rapid.Bool().Draw(t, "prepare") {
				mc.exec(mc.genPrepare(t))
			}
			n := 3 + uni(t, maxSteps-2, "n")
			for i := 0; i < n; i++ {
				for _, o := range mc.genStep(t) {
					mc.exec(o)
				}
			}
			mc.exec(mc.genCommit(t))
			mc.finish(t)
		})
	})
}

// ---------------------------------------------------------------- SetStorage (state override), as its only caller uses it

// TestStateOverride covers StateDB.SetStorage the way internal/kaiapi StateOverride.Apply uses it ("should only be used
// for debugging"): on a freshly opened state, before any storage access or snapshot, never followed by Finalise or
// Commit. After it the account's storage must read as exactly the given map; the execution that follows (mutators,
// nested snapshots and reverts) must satisfy the replay relation and the model.
func TestStateOverride(t *testing.T) {
	rapid.Check(t, func(t *rapid.T) {
		mc := newMachine(t, uni(t, 10, "snaps") < 4, false, false)
		runCase(t, mc, func() {
			for a := 0; a < NA; a++ {
				if uni(t, 4, "live") != 0 { // non-empty accounts survive Commit(true) together with their storage
					mc.exec(op{k: opSetNonce, a: a, n: 1})
				}
			}
			npre := 1 + uni(t, 10, "npre")
			for i := 0; i < npre; i++ {
				o := genMut(t, &mc.m)
				if i%2 == 0 {
					o = op{k: opSetState, a: rapid.IntRange(0, NA-1).Draw(t, "a"), s: rapid.IntRange(0, NS-1).Draw(t, "s"), v: 1 + uni(t, 5, "v")}
				}
				mc.exec(o)
			}
			mc.exec(op{k: opCommit, del: rapid.Bool().Draw(t, "predel"), capLayers: -1, flush: rapid.Bool().Draw(t, "preflush")})
			mc.override, mc.G = true, nil
			mc.log = append(mc.log, "override")
			hidden := false
			first := rapid.IntRange(0, NA-1).Draw(t, "first")
			if uni(t, 4, "rich") != 0 { // prefer an account that has committed storage to hide
				for i := 0; i < NA; i++ {
					if a := (first + i) % NA; mc.m.acc[a].st != [NS]int{} {
						first = a
						break
					}
				}
			}
			for j, k := 0, 1+uni(t, 2, "naddr"); j < k; j++ {
				a := (first + j) % NA
				if rapid.Bool().Draw(t, "ovnonce") {
					mc.exec(op{k: opSetNonce, a: a, n: uint64(uni(t, 3, "n"))})
				}
				if rapid.Bool().Draw(t, "ovcode") {
					mc.exec(op{k: opSetCode, a: a, code: uni(t, len(codes), "code")})
				}
				if rapid.Bool().Draw(t, "ovbal") {
					mc.exec(op{k: opSetBal, a: a, amt: rapid.SampledFrom(amounts).Draw(t, "amt")})
				}
				if uni(t, 4, "diff") == 0 {
					mc.exec(op{k: opSetState, a: a, s: uni(t, NS, "s"), v: uni(t, len(vals), "v")})
					continue
				}
				o := op{k: opSetStorage, a: a}
				for s := range o.stor {
					o.stor[s] = uni(t, len(vals)+4, "sv") - 4
					if o.stor[s] < -1 {
						o.stor[s] = -1
					}
					if o.stor[s] <= 0 && mc.m.acc[a].st[s] != 0 {
						hidden = true // a committed slot has to disappear
					}
				}
				mc.exec(o)
			}
			n := 1 + uni(t, 24, "n")
			for i := 0; i < n; i++ {
				switch w := uni(t, 16, "step"); {
				case w < 9:
					mc.exec(genMut(t, &mc.m))
				case w < 12:
					mc.exec(op{k: opSnapshot})
				case w < 15 && len(mc.frames) > 1:
					mc.exec(op{k: opRevert, j: rapid.IntRange(1, len(mc.frames)-1).Draw(t, "to")})
				default:
					mc.exec(op{k: opRead, a: rapid.IntRange(0, NA-1).Draw(t, "a"), s: rapid.IntRange(0, NS-1).Draw(t, "s")})
				}
			}
			oa := mc.checkAll("end of overridden execution")
			mc.replay("end of overridden execution", oa)
			classes := []string{"override"}
			if hidden {
				classes = append(classes, "override-hides-committed-slot")
			}
			if mc.st.reverts > 0 {
				classes = append(classes, "override-then-revert")
			}
			ev.Case(hidden || mc.st.crossed2 > 0, mc.text(), classes...)
			if hidden && ev.WantSample("override") {
				ev.Sample("override", mc.text())
			}
		})
	})
}

// ---------------------------------------------------------------- directed histories (the shapes the property names)

var directed = []struct{ name, script string }{
	{"create-over-existing keeps balance, drops nonce/code/storage",
		"snaps=true quiet=false override=false;setbal a0 3;nonce a0 2;code a0 c3;sstore a0 s1 v2;sstore a0 s2 v5;commit del=true flush=true fresh=false cap=-1;" +
			"prepare 7a0001/1;create a0;read a0 s1;sstore a0 s3 v1;finalise del=true;commit del=true flush=true fresh=true cap=0"},
	{"create-over-existing reverted: committed storage readable again (cold caches)",
		"snaps=false quiet=true override=false;setbal a1 1;sstore a1 s0 v4;sstore a1 s3 v3;commit del=true flush=false fresh=false cap=-1;" +
			"snapshot;create a1;sstore a1 s0 v1;snapshot;suicide a1;revert ->1;read a1 s3;read a1 s0;commit del=true flush=false fresh=false cap=-1"},
	{"self-destruct, next transaction recreates with new storage",
		"snaps=true quiet=false override=false;setbal a2 2;sstore a2 s1 v1;code a2 c4;commit del=true flush=false fresh=false cap=-1;" +
			"prepare 7a0001/1;sstore a2 s2 v2;iroot del=true;prepare 7a0002/2;suicide a2;addbal a2 1;finalise del=true;prepare 7a0003/3;sstore a2 s3 v3;addbal a2 3;" +
			"commit del=true flush=false fresh=false cap=0"},
	{"self-destruct and recreate inside one transaction, then revert the recreate",
		"snaps=false quiet=false override=false;setbal a3 2;sstore a3 s0 v5;commit del=true flush=true fresh=false cap=-1;" +
			"suicide a3;snapshot;create a3;sstore a3 s0 v1;revert ->1;commit del=true flush=true fresh=false cap=-1"},
	{"touched empty account: deleted with del=true, kept with del=false, a reverted touch does not delete",
		"snaps=true quiet=false override=false;addbal a0 0;subbal a1 0;sstore a2 s0 v0;commit del=false flush=false fresh=false cap=-1;" +
			"addbal a0 0;snapshot;addbal a1 0;revert ->1;finalise del=true;addbal a2 0;finalise del=false;commit del=true flush=false fresh=false cap=1"},
	{"nested snapshots, revert to the middle one, every journal kind below it",
		"snaps=false quiet=false override=false;setbal a0 1267650600228229401496703205376;code a1 c2;commit del=true flush=false fresh=false cap=-1;prepare 7a0001/1;" +
			"snapshot;addbal a0 1;nonce a0 1;snapshot;code a0 c3;sstore a0 s1 v3;create a1;suicide a0;refund+ 3;log a1;preimage s1 c2;acl a2;aclslot a3 s2;tstore a1 s1 v2;addbal a2 0;" +
			"snapshot;refund- 1;log a0;tstore a1 s1 v0;revert ->2;log a2;revert ->1;commit del=true flush=false fresh=false cap=-1"},
	{"copy between transactions, both sides move on and commit",
		"snaps=true quiet=false override=false;setbal a0 2;sstore a0 s0 v1;commit del=true flush=false fresh=false cap=-1;prepare 7a0001/1;sstore a0 s1 v2;code a1 c2;finalise del=true;" +
			"copy/1[];copy/2[prepare 7a0002/2];sstore a0 s0 v0;suicide a1;copy/0[sstore a0 s1 v5,setbal a1 3,commit del=true flush=false fresh=false cap=-1];commit del=true flush=false fresh=false cap=0"},
}

func TestDirected(t *testing.T) {
	for _, d := range directed {
		sc, err := parseScript(d.script)
		if err != nil {
			t.Fatalf("%s: %v", d.name, err)
		}
		msg := runScript(sc)
		if sc.skipped > 0 {
			t.Fatalf("%s: %d operations of the script are not executable", d.name, sc.skipped)
		}
		ev.Case(true, d.script, "directed")
		if msg != "" {
			key := "directed"
			if i := strings.Index(msg, "key="); i >= 0 {
				key = strings.Fields(msg[i+4:])[0]
			}
			ev.Violation(t, key, d.script, "directed history %q: %s", d.name, msg)
		}
	}
}
