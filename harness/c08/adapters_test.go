package c08

// Adapters: apply an op to / observe a go-kardia StateDB and a go-ethereum v1.9.15 StateDB, content-only root, and the
// walk over committed tries and snapshot layers.

import (
	"bytes"
	"fmt"
	"math/big"
	"sort"
	"strings"

	gcommon "github.com/ethereum/go-ethereum/common"
	gstate "github.com/ethereum/go-ethereum/core/state"
	gtypes "github.com/ethereum/go-ethereum/core/types"
	gmem "github.com/ethereum/go-ethereum/ethdb/memorydb"
	grlp "github.com/ethereum/go-ethereum/rlp"
	gtrie "github.com/ethereum/go-ethereum/trie"

	"github.com/kardiachain/go-kardia/kai/state"
	"github.com/kardiachain/go-kardia/kai/state/snapshot"
	"github.com/kardiachain/go-kardia/lib/common"
	"github.com/kardiachain/go-kardia/lib/rlp"
	"github.com/kardiachain/go-kardia/trie"
	"github.com/kardiachain/go-kardia/types"
)

var bhash = common.BytesToHash([]byte("block"))

// applyK applies a replayable op to a go-kardia state. IntermediateRoot returns its root.
func applyK(s *state.StateDB, o *op) (root common.Hash) {
	a := addrs[o.a]
	switch o.k {
	case opAddBal:
		s.AddBalance(a, o.amount())
	case opSubBal:
		s.SubBalance(a, o.amount())
	case opSetBal:
		s.SetBalance(a, o.amount())
	case opSetNonce:
		s.SetNonce(a, o.n)
	case opSetCode:
		s.SetCode(a, codes[o.code])
	case opSetState:
		s.SetState(a, slots[o.s], vals[o.v])
	case opSetStorage:
		st := map[common.Hash]common.Hash{}
		for i, v := range o.stor {
			if v >= 0 {
				st[slots[i]] = vals[v]
			}
		}
		s.SetStorage(a, st)
	case opCreate:
		s.CreateAccount(a)
	case opSuicide:
		s.Suicide(a)
	case opAddRefund:
		s.AddRefund(o.n)
	case opSubRefund:
		s.SubRefund(o.n)
	case opLog:
		s.AddLog(&types.Log{Address: a, Data: []byte{byte(o.a)}})
	case opPreimage:
		s.AddPreimage(slots[o.s], codes[o.code])
	case opAclAddr:
		s.AddAddressToAccessList(a)
	case opAclSlot:
		s.AddSlotToAccessList(a, slots[o.s])
	case opTransient:
		s.SetTransientState(a, slots[o.s], vals[o.v])
	case opPrepare:
		s.Prepare(o.th, bhash, o.ti)
	case opSetTxCtx:
		s.SetTxContext(o.th, o.ti)
	case opFinalise:
		s.Finalise(o.del)
	case opInterRoot:
		return s.IntermediateRoot(o.del)
	default:
		panic("applyK: " + o.String())
	}
	return
}

// applyG applies the op to go-ethereum's StateDB where the operation exists there (v1.9.15 has no access list, no
// transient storage and no SetTxContext).
//
// Known deviation of the reference: in v1.9.15 resetObjectChange.dirtied() returns nil, i.e. an account re-created over
// an existing (or deleted-in-this-block) object is not marked touched and, unless something else dirties it, is neither
// written nor cleared at the end of the transaction (repaired upstream later; go-kardia has the repaired journal). When
// the model says the operation re-created an object, the adapter adds SetNonce(a, GetNonce(a)) after the operation — a
// no-op that only marks the object dirty.
//
// Second known deviation: v1.9.15 CreateAccount carries over the balance of an object that was already deleted at the end
// of an earlier transaction of the block (value sent to a self-destructed account after its SELFDESTRUCT re-appears);
// upstream later restricted the carry-over to live objects, as go-kardia does. When the model says the account did not
// exist, the adapter zeroes the balance of the re-created account on the reference side.
func applyG(g *gstate.StateDB, o *op, reset, existed bool) (root gcommon.Hash) {
	a := gcommon.Address(addrs[o.a])
	if reset {
		defer func() {
			if o.k == opCreate && !existed {
				g.SetBalance(a, new(big.Int))
			}
			g.SetNonce(a, g.GetNonce(a))
		}()
	}
	switch o.k {
	case opAddBal:
		g.AddBalance(a, o.amount())
	case opSubBal:
		g.SubBalance(a, o.amount())
	case opSetBal:
		g.SetBalance(a, o.amount())
	case opSetNonce:
		g.SetNonce(a, o.n)
	case opSetCode:
		g.SetCode(a, codes[o.code])
	case opSetState:
		g.SetState(a, gcommon.Hash(slots[o.s]), gcommon.Hash(vals[o.v]))
	case opCreate:
		g.CreateAccount(a)
	case opSuicide:
		g.Suicide(a)
	case opAddRefund:
		g.AddRefund(o.n)
	case opSubRefund:
		g.SubRefund(o.n)
	case opLog:
		g.AddLog(&gtypes.Log{Address: a})
	case opPreimage:
		g.AddPreimage(gcommon.Hash(slots[o.s]), codes[o.code])
	case opPrepare, opSetTxCtx:
		g.Prepare(gcommon.Hash(o.th), gcommon.Hash(bhash), o.ti)
	case opFinalise:
		g.Finalise(o.del)
	case opInterRoot:
		return g.IntermediateRoot(o.del)
	case opAclAddr, opAclSlot, opTransient:
	default:
		panic("applyG: " + o.String())
	}
	return
}

// observeK reads every getter of a go-kardia state for the whole universe.
func observeK(s *state.StateDB, txs []common.Hash) *obs {
	var o obs
	for i, a := range addrs {
		x := &o.Acc[i]
		x.Exist = s.Exist(a)
		x.Empty = s.Empty(a)
		x.Suicided = s.HasSuicided(a)
		x.Balance = s.GetBalance(a).String()
		x.Nonce = s.GetNonce(a)
		x.Code = string(s.GetCode(a))
		x.CodeHash = s.GetCodeHash(a)
		x.CodeSize = s.GetCodeSize(a)
		if i < NA {
			for j, k := range slots {
				x.State[j] = s.GetState(a, k)
				x.Committed[j] = s.GetCommittedState(a, k)
				x.Transient[j] = s.GetTransientState(a, k)
				ap, sp := s.SlotInAccessList(a, k)
				x.AclSlot[j] = sp
				if ap != s.AddressInAccessList(a) {
					o.Err += fmt.Sprintf("SlotInAccessList(a%d).addressPresent=%v but AddressInAccessList=%v;", i, ap, !ap)
				}
			}
			x.AclAddr = s.AddressInAccessList(a)
		}
	}
	o.Refund = s.GetRefund()
	var per []string
	for _, th := range txs {
		ls := s.GetLogs(th, 7, bhash)
		if len(ls) == 0 {
			continue
		}
		var sb strings.Builder
		fmt.Fprintf(&sb, "%x:", th[29:])
		for _, l := range ls {
			ai := -1
			for i, a := range addrs {
				if a == l.Address {
					ai = i
				}
			}
			if l.TxHash != th {
				o.Err += fmt.Sprintf("log under %x carries TxHash %x;", th[29:], l.TxHash[29:])
			}
			fmt.Fprintf(&sb, " a%d/%d/%d", ai, l.TxIndex, l.Index)
		}
		per = append(per, sb.String())
	}
	sort.Strings(per)
	o.Logs = strings.Join(per, ";")
	o.NLogs = len(s.Logs())
	o.Preimages = preimageText2(s.Preimages())
	o.TxIndex = s.TxIndex()
	if err := s.Error(); err != nil {
		o.Err += err.Error()
	}
	return &o
}

func preimageText2(p map[common.Hash][]byte) string {
	m := make(map[common.Hash]string, len(p))
	for k, v := range p {
		m[k] = string(v)
	}
	return preimageText(m)
}

// observeG reads go-ethereum's state; observables it does not have are copied from `like` so that obs.diff only sees
// the common subset.
func observeG(g *gstate.StateDB, like *obs) *obs {
	o := *like
	for i, ka := range addrs {
		a := gcommon.Address(ka)
		x := &o.Acc[i]
		x.Exist = g.Exist(a)
		x.Empty = g.Empty(a)
		x.Suicided = g.HasSuicided(a)
		x.Balance = g.GetBalance(a).String()
		x.Nonce = g.GetNonce(a)
		x.Code = string(g.GetCode(a))
		x.CodeHash = g.GetCodeHash(a)
		x.CodeSize = g.GetCodeSize(a)
		if i < NA {
			for j, k := range slots {
				x.State[j] = g.GetState(a, gcommon.Hash(k))
				x.Committed[j] = g.GetCommittedState(a, gcommon.Hash(k))
			}
		}
	}
	o.Refund = g.GetRefund()
	o.NLogs = len(g.Logs())
	pm := make(map[common.Hash]string)
	for k, v := range g.Preimages() {
		pm[common.Hash(k)] = string(v)
	}
	o.Preimages = preimageText(pm)
	o.Err = like.Err
	if err := g.Error(); err != nil {
		o.Err = "geth: " + err.Error()
	}
	return &o
}

// contentRoot computes the state root from the model's content alone with go-ethereum's trie, RLP and the yellow-paper
// account encoding — no go-kardia code involved.
func contentRoot(m *model) common.Hash {
	tr, _ := gtrie.New(gcommon.Hash{}, gtrie.NewDatabase(gmem.New()))
	for i := range m.acc {
		ac := &m.acc[i]
		if !ac.exists {
			continue
		}
		var st *gtrie.Trie
		if ac.st != [NS]int{} {
			st, _ = gtrie.New(gcommon.Hash{}, gtrie.NewDatabase(gmem.New()))
		}
		for s := 0; s < NS; s++ {
			if ac.st[s] != 0 {
				v := vals[ac.st[s]]
				enc, _ := grlp.EncodeToBytes(bytes.TrimLeft(v[:], "\x00"))
				st.Update(slotHash[s][:], enc)
			}
		}
		ch := codeHash[string(ac.code)]
		root := gcommon.Hash(types.EmptyRootHash)
		if ac.st != [NS]int{} {
			root = st.Hash()
		}
		enc, err := grlp.EncodeToBytes(&gstate.Account{Nonce: ac.nonce, Balance: ac.bal, Root: root, CodeHash: ch[:]})
		if err != nil {
			panic(err)
		}
		tr.Update(addrHash[i][:], enc)
	}
	return common.Hash(tr.Hash())
}

// walkTries iterates the committed account trie and every storage trie below root and renders the content; unknown
// keys (accounts or slots outside the universe) are rendered as such. The expected rendering comes from wantContent.
func walkTries(db state.Database, root common.Hash) (string, error) {
	tr, err := db.OpenTrie(root)
	if err != nil {
		return "", err
	}
	var out []string
	it := trie.NewIterator(tr.NodeIterator(nil))
	for it.Next() {
		var acc types.StateAccount
		if err := rlp.DecodeBytes(it.Value, &acc); err != nil {
			return "", fmt.Errorf("account %x: %v", it.Key, err)
		}
		line := fmt.Sprintf("%s n=%d b=%v c=%x", nameOfHashedAddr(it.Key), acc.Nonce, acc.Balance, acc.CodeHash[:4])
		if acc.Root != types.EmptyRootHash {
			stt, err := db.OpenStorageTrie(root, common.BytesToHash(it.Key), acc.Root)
			if err != nil {
				return "", fmt.Errorf("storage trie of %x: %v", it.Key, err)
			}
			sit := trie.NewIterator(stt.NodeIterator(nil))
			var sl []string
			for sit.Next() {
				_, content, _, err := rlp.Split(sit.Value)
				if err != nil {
					return "", err
				}
				sl = append(sl, fmt.Sprintf("%s=%x", nameOfHashedSlot(sit.Key), content))
			}
			if sit.Err != nil {
				return "", sit.Err
			}
			sort.Strings(sl)
			line += " {" + strings.Join(sl, " ") + "}"
		}
		out = append(out, line)
	}
	if it.Err != nil {
		return "", it.Err
	}
	sort.Strings(out)
	return strings.Join(out, "\n"), nil
}

// walkSnapshot renders the same content from the snapshot layers' iterators.
func walkSnapshot(snaps *snapshot.Tree, root common.Hash) (string, error) {
	ait, err := snaps.AccountIterator(root, common.Hash{})
	if err != nil {
		return "", err
	}
	defer ait.Release()
	var out []string
	for ait.Next() {
		acc, err := types.FullAccount(ait.Account())
		if err != nil {
			return "", err
		}
		h := ait.Hash()
		line := fmt.Sprintf("%s n=%d b=%v c=%x", nameOfHashedAddr(h[:]), acc.Nonce, acc.Balance, acc.CodeHash[:4])
		sit, err := snaps.StorageIterator(root, h, common.Hash{})
		if err != nil {
			return "", err
		}
		var sl []string
		for sit.Next() {
			_, content, _, err := rlp.Split(sit.Slot())
			if err != nil {
				sit.Release()
				return "", err
			}
			sh := sit.Hash()
			sl = append(sl, fmt.Sprintf("%s=%x", nameOfHashedSlot(sh[:]), content))
		}
		serr := sit.Error()
		sit.Release()
		if serr != nil {
			return "", serr
		}
		if (len(sl) > 0) != (acc.Root != types.EmptyRootHash) {
			return "", fmt.Errorf("snapshot account %s has storage root %x but %d slots", nameOfHashedAddr(h[:]), acc.Root, len(sl))
		}
		if len(sl) > 0 {
			sort.Strings(sl)
			line += " {" + strings.Join(sl, " ") + "}"
		}
		out = append(out, line)
	}
	if err := ait.Error(); err != nil {
		return "", err
	}
	sort.Strings(out)
	return strings.Join(out, "\n"), nil
}

func wantContent(m *model) string {
	var out []string
	for i := range m.acc {
		ac := &m.acc[i]
		if !ac.exists {
			continue
		}
		ch := codeHash[string(ac.code)]
		line := fmt.Sprintf("a%d n=%d b=%v c=%x", i, ac.nonce, ac.bal, ch[:4])
		var sl []string
		for s := 0; s < NS; s++ {
			if ac.st[s] != 0 {
				v := vals[ac.st[s]]
				sl = append(sl, fmt.Sprintf("s%d=%x", s, bytes.TrimLeft(v[:], "\x00")))
			}
		}
		if len(sl) > 0 {
			sort.Strings(sl)
			line += " {" + strings.Join(sl, " ") + "}"
		}
		out = append(out, line)
	}
	sort.Strings(out)
	return strings.Join(out, "\n")
}

// modelAccount returns the yellow-paper encoding of the model's account i (nil if absent) and its storage root.
func modelAccount(m *model, i int) ([]byte, gcommon.Hash) {
	ac := &m.acc[i]
	if !ac.exists {
		return nil, gcommon.Hash{}
	}
	root := gcommon.Hash(types.EmptyRootHash)
	if ac.st != [NS]int{} {
		st, _ := gtrie.New(gcommon.Hash{}, gtrie.NewDatabase(gmem.New()))
		for s := 0; s < NS; s++ {
			if ac.st[s] != 0 {
				v := vals[ac.st[s]]
				enc, _ := grlp.EncodeToBytes(bytes.TrimLeft(v[:], "\x00"))
				st.Update(slotHash[s][:], enc)
			}
		}
		root = st.Hash()
	}
	ch := codeHash[string(ac.code)]
	enc, err := grlp.EncodeToBytes(&gstate.Account{Nonce: ac.nonce, Balance: ac.bal, Root: root, CodeHash: ch[:]})
	if err != nil {
		panic(err)
	}
	return enc, root
}

// checkProofs verifies GetProof / GetStorageProof of a state opened on a committed root with go-ethereum's verifier
// against the model's content. It returns a description of the first mismatch.
func checkProofs(s *state.StateDB, root common.Hash, m *model, slot int) string {
	for i, a := range addrs {
		want, sroot := modelAccount(m, i)
		proof, err := s.GetProof(a)
		if err != nil {
			return fmt.Sprintf("GetProof(a%d): %v", i, err)
		}
		pdb := gmem.New()
		for _, n := range proof {
			h := keccak(n)
			pdb.Put(h[:], n)
		}
		got, err := gtrie.VerifyProof(gcommon.Hash(root), addrHash[i][:], pdb)
		if want == nil && len(proof) == 0 && root == types.EmptyRootHash {
			continue // the empty trie has no node to prove anything with
		}
		if err != nil || !bytes.Equal(got, want) {
			return fmt.Sprintf("GetProof(a%d) verifies to %x (%v), committed account is %x", i, got, err, want)
		}
		if want == nil || i >= NA {
			continue
		}
		sp, err := s.GetStorageProof(a, slots[slot])
		if err != nil {
			return fmt.Sprintf("GetStorageProof(a%d,s%d): %v", i, slot, err)
		}
		var wantSlot []byte
		if v := m.acc[i].st[slot]; v != 0 {
			wantSlot, _ = grlp.EncodeToBytes(bytes.TrimLeft(vals[v][:], "\x00"))
		}
		if sroot == gcommon.Hash(types.EmptyRootHash) {
			if len(sp) != 0 {
				return fmt.Sprintf("GetStorageProof(a%d,s%d) has %d nodes for an empty storage trie", i, slot, len(sp))
			}
			continue
		}
		sdb := gmem.New()
		for _, n := range sp {
			h := keccak(n)
			sdb.Put(h[:], n)
		}
		gotSlot, err := gtrie.VerifyProof(sroot, slotHash[slot][:], sdb)
		if err != nil || !bytes.Equal(gotSlot, wantSlot) {
			return fmt.Sprintf("GetStorageProof(a%d,s%d) verifies to %x (%v) below storage root %x, committed slot is %x", i, slot, gotSlot, err, sroot, wantSlot)
		}
	}
	return ""
}

var hashedAddr, hashedSlot = map[[32]byte]string{}, map[[32]byte]string{}

func init() {
	for i, a := range addrs {
		hashedAddr[keccak(a[:])] = fmt.Sprintf("a%d", i)
	}
	for i, s := range slots {
		hashedSlot[keccak(s[:])] = fmt.Sprintf("s%d", i)
	}
	if gcommon.Hash(types.EmptyRootHash) != gcommon.HexToHash("56e81f171bcc55a6ff8345e692c0f86e5b48e01b996cadc001622fb5e363b421") {
		panic("empty root constant")
	}
}

func nameOfHashedAddr(k []byte) string {
	var h [32]byte
	copy(h[:], k)
	if n, ok := hashedAddr[h]; ok {
		return n
	}
	return fmt.Sprintf("UNKNOWN-ACCOUNT-%x", k)
}

func nameOfHashedSlot(k []byte) string {
	var h [32]byte
	copy(h[:], k)
	if n, ok := hashedSlot[h]; ok {
		return n
	}
	return fmt.Sprintf("UNKNOWN-SLOT-%x", k)
}

var _ = big.NewInt
