package c08

// Universe, operation type, observation record and the plain-map reference model of StateDB.
//
// The model is written from the documented semantics of the state layer (EIP-158/161 touch + empty deletion at
// transaction end, self-destruct takes effect at transaction end, CreateAccount keeps the balance and drops
// nonce/code/storage, refund counter and journal are per transaction, logs/preimages/access list/transient storage live
// until the StateDB is dropped or the change is reverted).  It shares no code with go-kardia.

import (
	"fmt"
	"math/big"
	"sort"
	"strings"

	"golang.org/x/crypto/sha3"

	"github.com/kardiachain/go-kardia/lib/common"
)

const (
	NA = 4 // addresses in the universe (index NA is the block-counter account Z)
	NS = 4 // storage slots per address
)

// None of these is the RIPEMD precompile 0x…03, whose touch survives a revert by a documented consensus exception.
var addrs = [NA + 1]common.Address{
	common.BytesToAddress([]byte{0x11}),
	{0xa1},
	common.BytesToAddress([]byte{0xf0, 0x0d}),
	{0xff, 0xff, 0xff, 0xff, 0xff, 0xff, 0xff, 0xff, 0xff, 0xff, 0xff, 0xff, 0xff, 0xff, 0xff, 0xff, 0xff, 0xff, 0xff, 0xff},
	common.BytesToAddress([]byte{0xc0, 0xde}), // Z: nonce bumped before every commit when a snapshot tree is attached
}

var slots = [NS]common.Hash{
	{},
	common.BytesToHash([]byte{1}),
	common.BytesToHash([]byte{1, 0}),
	{0xff, 0xff, 0xff, 0xff, 0xff, 0xff, 0xff, 0xff, 0xff, 0xff, 0xff, 0xff, 0xff, 0xff, 0xff, 0xff, 0xff, 0xff, 0xff, 0xff, 0xff, 0xff, 0xff, 0xff, 0xff, 0xff, 0xff, 0xff, 0xff, 0xff, 0xff, 0xff},
}

// storage values: zero, small, 0x80 (RLP boundary), 32 significant bytes, trailing zeroes
var vals = [6]common.Hash{
	{},
	common.BytesToHash([]byte{1}),
	common.BytesToHash([]byte{2}),
	common.BytesToHash([]byte{0x80}),
	{0x01},
	{0xff, 0xff, 0xff, 0xff, 0xff, 0xff, 0xff, 0xff, 0xff, 0xff, 0xff, 0xff, 0xff, 0xff, 0xff, 0xff, 0xff, 0xff, 0xff, 0xff, 0xff, 0xff, 0xff, 0xff, 0xff, 0xff, 0xff, 0xff, 0xff, 0xff, 0xff, 0xff},
}

var codes = [5][]byte{
	nil,
	{},
	{0x00},
	{0x60, 0x00, 0x60, 0x00, 0xf3},
	[]byte("0123456789abcdef0123456789abcdef0123456789"), // > 32 bytes
}

func keccak(b []byte) (h [32]byte) {
	d := sha3.NewLegacyKeccak256()
	d.Write(b)
	d.Sum(h[:0])
	return h
}

var (
	addrHash [NA + 1][32]byte
	slotHash [NS][32]byte
	codeHash = map[string][32]byte{}
)

func init() {
	for i, a := range addrs {
		addrHash[i] = keccak(a[:])
	}
	for i, s := range slots {
		slotHash[i] = keccak(s[:])
	}
	for _, c := range codes {
		codeHash[string(c)] = keccak(c)
	}
}

// ---------------------------------------------------------------- operations

type opKind int

const (
	opAddBal opKind = iota
	opSubBal
	opSetBal
	opSetNonce
	opSetCode
	opSetState
	opCreate
	opSuicide
	opAddRefund
	opSubRefund
	opLog
	opPreimage
	opAclAddr
	opAclSlot
	opTransient
	opPrepare   // Prepare(thash, bhash, ti)
	opSetTxCtx  // SetTxContext(thash, ti)
	opFinalise  // Finalise(del)
	opInterRoot // IntermediateRoot(del)
	opSetStorage
	// machine-level operations (never part of a replay list)
	opSnapshot
	opRevert
	opCommit
	opCopy
	opRead
)

var kindName = map[opKind]string{
	opAddBal: "addbal", opSubBal: "subbal", opSetBal: "setbal", opSetNonce: "nonce", opSetCode: "code", opSetState: "sstore",
	opCreate: "create", opSuicide: "suicide", opAddRefund: "refund+", opSubRefund: "refund-", opLog: "log", opPreimage: "preimage",
	opAclAddr: "acl", opAclSlot: "aclslot", opTransient: "tstore", opPrepare: "prepare", opSetTxCtx: "txctx", opFinalise: "finalise",
	opInterRoot: "iroot", opSetStorage: "setstorage", opSnapshot: "snapshot", opRevert: "revert", opCommit: "commit", opCopy: "copy", opRead: "read",
}

type op struct {
	k       opKind
	a, s, v int      // address, slot, value index
	n       uint64   // nonce / refund
	amt     *big.Int // balance operations
	code    int
	del     bool
	th      common.Hash
	ti      int
	j       int     // revert: index of the frame to revert to
	stor    [NS]int // SetStorage: value index per slot, -1 = key absent from the map
	// commit options
	flush, fresh bool
	capLayers    int // -1: leave the snapshot tree alone
	// copy
	variant int // 0 throw-away (mutate the copy), 1 frozen (mutate the original), 2 continue on the copy
	sub     []op
	// observed on the history under test, compared in the replay
	root common.Hash
}

func (o *op) amount() *big.Int {
	if o.amt == nil {
		return big0
	}
	return o.amt
}

func (o op) String() string {
	n := kindName[o.k]
	amt := func() string { return o.amount().String() }
	switch o.k {
	case opAddBal, opSubBal, opSetBal:
		return fmt.Sprintf("%s a%d %s", n, o.a, amt())
	case opSetNonce:
		return fmt.Sprintf("%s a%d %d", n, o.a, o.n)
	case opSetCode:
		return fmt.Sprintf("%s a%d c%d", n, o.a, o.code)
	case opSetState, opTransient:
		return fmt.Sprintf("%s a%d s%d v%d", n, o.a, o.s, o.v)
	case opCreate, opSuicide, opLog, opAclAddr:
		return fmt.Sprintf("%s a%d", n, o.a)
	case opAddRefund, opSubRefund:
		return fmt.Sprintf("%s %d", n, o.n)
	case opPreimage:
		return fmt.Sprintf("%s s%d c%d", n, o.s, o.code)
	case opAclSlot:
		return fmt.Sprintf("%s a%d s%d", n, o.a, o.s)
	case opPrepare, opSetTxCtx:
		return fmt.Sprintf("%s %x/%d", n, o.th[29:], o.ti)
	case opFinalise, opInterRoot:
		return fmt.Sprintf("%s del=%v", n, o.del)
	case opSetStorage:
		return fmt.Sprintf("%s a%d %v", n, o.a, o.stor)
	case opRevert:
		return fmt.Sprintf("%s ->%d", n, o.j)
	case opCommit:
		return fmt.Sprintf("%s del=%v flush=%v fresh=%v cap=%d", n, o.del, o.flush, o.fresh, o.capLayers)
	case opCopy:
		var sb []string
		for _, s := range o.sub {
			sb = append(sb, s.String())
		}
		return fmt.Sprintf("%s/%d[%s]", n, o.variant, strings.Join(sb, ","))
	case opRead:
		return fmt.Sprintf("%s a%d s%d", n, o.a, o.s)
	}
	return n
}

// ---------------------------------------------------------------- observations

type aobs struct {
	Exist, Empty, Suicided bool
	Balance                string
	Nonce                  uint64
	Code                   string
	CodeHash               [32]byte
	CodeSize               int
	State, Committed       [NS][32]byte
	Transient              [NS][32]byte
	AclAddr                bool
	AclSlot                [NS]bool
}

type obs struct {
	Acc       [NA + 1]aobs
	Refund    uint64
	Logs      string // per used tx hash: emitter / tx index / log index
	NLogs     int
	Preimages string
	TxIndex   int
	Err       string
}

// diff returns the name of the first differing observable and a description, or "".
func (x *obs) diff(y *obs) (field, detail string) {
	for i := range x.Acc {
		a, b := &x.Acc[i], &y.Acc[i]
		if *a == *b {
			continue
		}
		w := func(f string, l, r interface{}) (string, string) {
			return f, fmt.Sprintf("a%d %s: %v  vs  %v", i, f, l, r)
		}
		switch {
		case a.Exist != b.Exist:
			return w("exist", a.Exist, b.Exist)
		case a.Empty != b.Empty:
			return w("empty", a.Empty, b.Empty)
		case a.Suicided != b.Suicided:
			return w("suicided", a.Suicided, b.Suicided)
		case a.Balance != b.Balance:
			return w("balance", a.Balance, b.Balance)
		case a.Nonce != b.Nonce:
			return w("nonce", a.Nonce, b.Nonce)
		case a.Code != b.Code:
			return w("code", a.Code, b.Code)
		case a.CodeHash != b.CodeHash:
			return w("codehash", fmt.Sprintf("%x", a.CodeHash), fmt.Sprintf("%x", b.CodeHash))
		case a.CodeSize != b.CodeSize:
			return w("codesize", a.CodeSize, b.CodeSize)
		case a.State != b.State:
			return w("storage", hx(a.State), hx(b.State))
		case a.Committed != b.Committed:
			return w("committed-storage", hx(a.Committed), hx(b.Committed))
		case a.Transient != b.Transient:
			return w("transient", hx(a.Transient), hx(b.Transient))
		case a.AclAddr != b.AclAddr:
			return w("accesslist-address", a.AclAddr, b.AclAddr)
		default:
			return w("accesslist-slot", a.AclSlot, b.AclSlot)
		}
	}
	switch {
	case x.Refund != y.Refund:
		return "refund", fmt.Sprintf("refund %d vs %d", x.Refund, y.Refund)
	case x.NLogs != y.NLogs:
		return "logs", fmt.Sprintf("log count %d vs %d", x.NLogs, y.NLogs)
	case x.Logs != y.Logs:
		return "logs", fmt.Sprintf("logs %q vs %q", x.Logs, y.Logs)
	case x.Preimages != y.Preimages:
		return "preimages", fmt.Sprintf("preimages %q vs %q", x.Preimages, y.Preimages)
	case x.TxIndex != y.TxIndex:
		return "txindex", fmt.Sprintf("TxIndex %d vs %d", x.TxIndex, y.TxIndex)
	case x.Err != y.Err:
		return "dberr", fmt.Sprintf("Error() %q vs %q", x.Err, y.Err)
	}
	return "", ""
}

func hx(v [NS][32]byte) string {
	var p []string
	for _, x := range v {
		p = append(p, strings.TrimLeft(fmt.Sprintf("%x", x), "0"))
	}
	return "[" + strings.Join(p, " ") + "]"
}

// ---------------------------------------------------------------- the model

type mAcct struct {
	exists, suicided bool
	dirty            bool // has an un-reverted journal entry in the current transaction
	ghost            bool // an object flagged deleted is still cached for this address (label only)
	nonce            uint64
	bal              *big.Int // never mutated in place
	code             []byte
	st, cst          [NS]int // current / committed value index
}

type mLog struct {
	a, ti int
	idx   uint
}

type mTxLogs struct {
	th common.Hash
	e  []mLog
}

// model is copied by plain assignment: slices and maps inside are copy-on-write.
type model struct {
	st      *caseStats // counters of the running case (shared by copies of the model; may be nil)
	acc     [NA + 1]mAcct
	refund  uint64
	jlen    int // un-reverted journal entries since the last Finalise
	logs    []mTxLogs
	logSize uint
	pre     map[common.Hash]string
	aclA    [NA + 1]bool
	aclS    [NA + 1][NS]bool
	tr      [NA + 1][NS]int
	th      common.Hash
	ti      int
}

var big0 = new(big.Int)

func newModel() model {
	var m model
	for i := range m.acc {
		m.acc[i].bal = big0
	}
	return m
}

func (a *mAcct) empty() bool {
	return !a.exists || (a.nonce == 0 && a.bal.Sign() == 0 && len(a.code) == 0)
}

// ensure mirrors GetOrNewStateObject.
func (m *model) ensure(a int, kinds *[]string) *mAcct {
	ac := &m.acc[a]
	if !ac.exists {
		k := "create"
		if ac.ghost {
			k = "reset"
			if m.st != nil {
				m.st.resurrect++
			}
		}
		*kinds = append(*kinds, k)
		*ac = mAcct{exists: true, dirty: true, ghost: ac.ghost, bal: big0}
	}
	return ac
}

// apply executes a replayable operation and returns the kinds of journal entries it must have produced.
func (m *model) apply(o *op) []string {
	var kinds []string
	switch o.k {
	case opAddBal:
		ac := m.ensure(o.a, &kinds)
		amt := o.amount()
		if amt.Sign() == 0 {
			if ac.empty() {
				kinds = append(kinds, "touch")
				ac.dirty = true
			}
		} else {
			ac.bal = new(big.Int).Add(ac.bal, amt)
			ac.dirty = true
			kinds = append(kinds, "balance")
		}
	case opSubBal:
		ac := m.ensure(o.a, &kinds)
		amt := o.amount()
		if amt.Sign() != 0 {
			ac.bal = new(big.Int).Sub(ac.bal, amt)
			ac.dirty = true
			kinds = append(kinds, "balance")
		}
	case opSetBal:
		ac := m.ensure(o.a, &kinds)
		ac.bal = o.amount()
		ac.dirty = true
		kinds = append(kinds, "balance")
	case opSetNonce:
		ac := m.ensure(o.a, &kinds)
		ac.nonce = o.n
		ac.dirty = true
		kinds = append(kinds, "nonce")
	case opSetCode:
		ac := m.ensure(o.a, &kinds)
		ac.code = codes[o.code]
		ac.dirty = true
		kinds = append(kinds, "code")
	case opSetState:
		ac := m.ensure(o.a, &kinds)
		if ac.st[o.s] != o.v {
			ac.st[o.s] = o.v
			ac.dirty = true
			kinds = append(kinds, "storage")
		}
	case opSetStorage:
		// debugging aid used by state overrides: the account's storage becomes exactly the given map
		ac := m.ensure(o.a, &kinds)
		ac.st, ac.cst = [NS]int{}, [NS]int{}
		for s, v := range o.stor {
			if v > 0 {
				ac.st[s] = v
				ac.dirty = true
				kinds = append(kinds, "storage")
			}
		}
	case opCreate:
		ac := &m.acc[o.a]
		k := "create"
		if ac.exists || ac.ghost {
			k = "reset"
		}
		bal := big0
		if ac.exists {
			bal = ac.bal
		}
		if m.st != nil {
			if ac.exists && !ac.suicided {
				m.st.createOver++
			}
			if ac.ghost || ac.suicided {
				m.st.resurrect++
			}
		}
		*ac = mAcct{exists: true, dirty: true, ghost: ac.ghost, bal: bal}
		kinds = append(kinds, k)
	case opSuicide:
		ac := &m.acc[o.a]
		if ac.exists {
			ac.suicided = true
			ac.bal = big0
			ac.dirty = true
			kinds = append(kinds, "suicide")
		}
	case opAddRefund:
		m.refund += o.n
		kinds = append(kinds, "refund")
	case opSubRefund:
		m.refund -= o.n
		kinds = append(kinds, "refund")
	case opLog:
		ent := mLog{a: o.a, ti: m.ti, idx: m.logSize}
		m.logSize++
		found := false
		nl := make([]mTxLogs, len(m.logs), len(m.logs)+1)
		copy(nl, m.logs)
		for i := range nl {
			if nl[i].th == m.th {
				nl[i].e = append(nl[i].e[:len(nl[i].e):len(nl[i].e)], ent)
				found = true
			}
		}
		if !found {
			nl = append(nl, mTxLogs{th: m.th, e: []mLog{ent}})
		}
		m.logs = nl
		kinds = append(kinds, "log")
	case opPreimage:
		h := slots[o.s]
		if _, ok := m.pre[h]; !ok {
			np := make(map[common.Hash]string, len(m.pre)+1)
			for k, v := range m.pre {
				np[k] = v
			}
			np[h] = string(codes[o.code])
			m.pre = np
			kinds = append(kinds, "preimage")
		}
	case opAclAddr:
		if !m.aclA[o.a] {
			m.aclA[o.a] = true
			kinds = append(kinds, "acl-address")
		}
	case opAclSlot:
		if !m.aclA[o.a] {
			m.aclA[o.a] = true
			kinds = append(kinds, "acl-address")
		}
		if !m.aclS[o.a][o.s] {
			m.aclS[o.a][o.s] = true
			kinds = append(kinds, "acl-slot")
		}
	case opTransient:
		if m.tr[o.a][o.s] != o.v {
			m.tr[o.a][o.s] = o.v
			kinds = append(kinds, "transient")
		}
	case opPrepare, opSetTxCtx:
		m.th, m.ti = o.th, o.ti
	case opFinalise, opInterRoot:
		m.finalise(o.del)
		return nil
	default:
		panic("model: not a replayable op: " + o.String())
	}
	m.jlen += len(kinds)
	return kinds
}

// finalise is the end of a transaction: self-destructed accounts and (if del) touched empty accounts disappear,
// current storage becomes committed storage, the refund counter and the journal are reset.
func (m *model) finalise(del bool) {
	for i := range m.acc {
		ac := &m.acc[i]
		if ac.dirty && ac.exists {
			if ac.suicided || (del && ac.empty()) {
				if m.st != nil {
					if ac.suicided {
						m.st.suicided++
					} else {
						m.st.emptyDeleted++
					}
				}
				*ac = mAcct{ghost: true, bal: big0}
			} else {
				ac.cst = ac.st
			}
		}
		ac.dirty = false
	}
	if m.jlen > 0 {
		m.refund = 0
	}
	m.jlen = 0
}

// reopen models dropping the StateDB after Commit and opening a new one on the committed root.
func (m *model) reopen() {
	for i := range m.acc {
		m.acc[i].ghost = false
	}
	acc, st := m.acc, m.st
	*m = newModel()
	m.acc, m.st = acc, st
}

func (m *model) observe() *obs {
	var o obs
	for i := range m.acc {
		ac := &m.acc[i]
		x := &o.Acc[i]
		x.Exist = ac.exists
		x.Empty = ac.empty()
		x.Suicided = ac.exists && ac.suicided
		x.Balance = ac.bal.String()
		x.Nonce = ac.nonce
		x.Code = string(ac.code)
		if ac.exists {
			x.CodeHash = codeHash[string(ac.code)]
		}
		x.CodeSize = len(ac.code)
		if i < NA {
			for s := 0; s < NS; s++ {
				x.State[s] = vals[ac.st[s]]
				x.Committed[s] = vals[ac.cst[s]]
				x.Transient[s] = vals[m.tr[i][s]]
				x.AclSlot[s] = m.aclS[i][s]
			}
			x.AclAddr = m.aclA[i]
		}
	}
	o.Refund = m.refund
	var per []string
	for _, tl := range m.logs {
		var sb strings.Builder
		fmt.Fprintf(&sb, "%x:", tl.th[29:])
		for _, e := range tl.e {
			fmt.Fprintf(&sb, " a%d/%d/%d", e.a, e.ti, e.idx)
			o.NLogs++
		}
		per = append(per, sb.String())
	}
	sort.Strings(per)
	o.Logs = strings.Join(per, ";")
	o.Preimages = preimageText(m.pre)
	o.TxIndex = m.ti
	return &o
}

func preimageText(p map[common.Hash]string) string {
	var ks []string
	for k, v := range p {
		ks = append(ks, fmt.Sprintf("%x=%x", k[30:], v))
	}
	sort.Strings(ks)
	return strings.Join(ks, ",")
}
