// C12 — proposer rotation is the specified fair round-robin; set updates are well-formed.
//
// Every history is executed on the real types.ValidatorSet and on an executable transcription of the specification
// (model_test.go). The oracle runs in "known-deviation" mode for defect D3 (the priority window is never enforced):
//
//	implementation == specification                                  -> pass
//	implementation == specification-minus-window != specification    -> finding key rotation.window-not-enforced
//	                                                                     (listed as known: the case goes on against
//	                                                                     the no-window model)
//	anything else                                                     -> a violation with its own, specific key
//
// If D3 is repaired the implementation equals the specification and the check passes unchanged.
package c12

import (
	"fmt"
	"os"
	"sort"
	"strconv"
	"strings"
	"testing"

	"pgregory.net/rapid"

	"github.com/kardiachain/go-kardia/lib/common"
	kproto "github.com/kardiachain/go-kardia/proto/kardiachain/types"
	"github.com/kardiachain/go-kardia/types"

	"verifharness/internal/ev"
)

func TestMain(m *testing.M) {
	ev.Init("C12")
	rc := m.Run()
	ev.Flush()
	os.Exit(rc)
}

const keyD3 = "rotation.window-not-enforced"

// ---------------------------------------------------------------- addresses

const poolSize = 12

var pool [poolSize]common.Address

func init() {
	// first byte is a permutation of 0x11..0xcc so that address order differs from index order; never the zero address
	for i := range pool {
		pool[i] = common.Address{byte(0x11 * ((i*5)%poolSize + 1)), byte(i + 1)}
	}
}

var poolNames = [poolSize]string{"v0", "v1", "v2", "v3", "v4", "v5", "v6", "v7", "v8", "v9", "v10", "v11"}

func name(a common.Address) string {
	for i := range pool {
		if pool[i] == a {
			return poolNames[i]
		}
	}
	if a == (common.Address{}) {
		return "none"
	}
	return a.Hex()[:10]
}

func chgText(cs []chg) string {
	parts := make([]string, len(cs))
	for i, c := range cs {
		parts[i] = fmt.Sprintf("%s=%d", name(c.addr), c.power)
	}
	return strings.Join(parts, ",")
}

func toValidators(cs []chg) []*types.Validator {
	out := make([]*types.Validator, len(cs))
	for i, c := range cs {
		out[i] = types.NewValidator(c.addr, c.power)
	}
	return out
}

func valsText(vs []*types.Validator) string {
	b := make([]byte, 0, 48*len(vs))
	for _, v := range vs {
		if v == nil {
			b = append(b, "nil,"...)
			continue
		}
		b = append(b, name(v.Address)...)
		b = append(b, ':')
		b = strconv.AppendInt(b, v.VotingPower, 10)
		b = append(b, ':')
		b = strconv.AppendInt(b, v.ProposerPriority, 10)
		b = append(b, ',')
	}
	return string(b)
}

// snap is the observable content of a set: members in order with power and priority, proposer address, total.
func snap(vs *types.ValidatorSet) string {
	p := "nil"
	if vs.Proposer != nil {
		p = name(vs.Proposer.Address)
	}
	return valsText(vs.Validators) + "|prop=" + p + "|tot=" + strconv.FormatInt(vs.TotalVotingPower(), 10)
}

// cloneSet is the harness's own deep copy (ValidatorSet.Copy is itself under test).
func cloneSet(vs *types.ValidatorSet) *types.ValidatorSet {
	out := &types.ValidatorSet{Validators: make([]*types.Validator, len(vs.Validators))}
	for i, v := range vs.Validators {
		c := *v
		out.Validators[i] = &c
		if vs.Proposer == v {
			out.Proposer = &c
		}
	}
	if out.Proposer == nil && vs.Proposer != nil {
		c := *vs.Proposer
		out.Proposer = &c
	}
	return out
}

// ---------------------------------------------------------------- comparison implementation <-> model

type mismatch struct {
	field string
	msg   string
}

func compare(vs *types.ValidatorSet, m *model, checkProposer bool) *mismatch {
	if len(vs.Validators) != len(m.vals) {
		return &mismatch{"membership", fmt.Sprintf("%d members, model has %d", len(vs.Validators), len(m.vals))}
	}
	for _, v := range vs.Validators {
		mv := m.find(v.Address)
		if mv == nil {
			return &mismatch{"membership", fmt.Sprintf("member %s is not in the model", name(v.Address))}
		}
		if mv.power != v.VotingPower {
			return &mismatch{"power", fmt.Sprintf("%s has power %d, model %d", name(v.Address), v.VotingPower, mv.power)}
		}
	}
	for i, v := range vs.Validators {
		if m.vals[i].addr != v.Address {
			return &mismatch{"order", fmt.Sprintf("position %d holds %s, model %s", i, name(v.Address), name(m.vals[i].addr))}
		}
	}
	if got, want := vs.TotalVotingPower(), m.total(); got != want {
		return &mismatch{"total", fmt.Sprintf("TotalVotingPower %d, model %d", got, want)}
	}
	for i, v := range vs.Validators {
		if m.vals[i].prio != v.ProposerPriority {
			return &mismatch{"priorities", fmt.Sprintf("%s has priority %d, model %d", name(v.Address), v.ProposerPriority, m.vals[i].prio)}
		}
	}
	if checkProposer {
		p := vs.GetProposer()
		if p == nil || p.Address != m.proposer {
			got := "nil"
			if p != nil {
				got = name(p.Address)
			}
			return &mismatch{"proposer", fmt.Sprintf("proposer %s, model %s", got, name(m.proposer))}
		}
	}
	return nil
}

// ---------------------------------------------------------------- the world: implementation + two models

const (
	modeSpec = iota // implementation has equalled the specification so far
	modeAlt         // D3 has shown: the implementation is followed with the no-window model
)

type world struct {
	t    ev.TB
	vs   *types.ValidatorSet
	spec *model
	alt  *model
	mode int
	log  []string
	cls  map[string]bool

	// non-trivial rule: a change set that alters the total by > 2x or adds a validator, followed by >= n rounds
	qualified   bool
	roundsAfter int64
	needRounds  int64
	nontrivial  bool
	maxAbs      int64
	lean        bool // drift prelude: model comparison only, no permutations / snapshots (they are exercised elsewhere)
	dead        bool // a listed known finding other than D3 was hit: the rest of the history is not executed

	// TestStateUpdate: the model before the block and the block's change set (key attribution on failure only)
	preBlock     *model
	blockChanges []chg
}

func (w *world) logf(f string, a ...interface{}) { w.log = append(w.log, fmt.Sprintf(f, a...)) }
func (w *world) text() string                   { return strings.Join(w.log, "|") }
func (w *world) class(c string)                 { w.cls[c] = true }

func (w *world) classes() []string {
	w.cls[w.magnitudeClass()] = true
	out := make([]string, 0, len(w.cls))
	for c := range w.cls {
		out = append(out, c)
	}
	sort.Strings(out)
	return out
}

// cur is the model the implementation is currently held against.
func (w *world) cur() *model {
	if w.mode == modeSpec {
		return w.spec
	}
	return w.alt
}

func newWorld(t ev.TB, initial []chg) *world {
	w := &world{t: t, cls: map[string]bool{}}
	w.logf("init:%s", chgText(initial))
	ev.Guard(t, w.text, func() { w.vs = types.NewValidatorSet(toValidators(initial)) })
	// the specification of NewValidatorSet: all members are newcomers of an empty set, then one round
	w.spec = &model{rescale: true}
	w.settle("new", func(m *model) { m.update(initial); m.increment(1) }, true, nil)
	return w
}

// settle advances the model(s) by f after the implementation has executed the same action, and compares.
func (w *world) settle(action string, f func(m *model), checkProposer bool, newcomers map[common.Address]bool) {
	defer w.noteMagnitude()
	if w.mode == modeSpec {
		alt := w.spec.clone()
		alt.rescale = false
		w.spec.clipped, alt.clipped = false, false
		f(w.spec)
		f(alt)
		if w.spec.fired {
			w.class("spec-window-fired")
		}
		var d, da *mismatch
		ev.Guard(w.t, w.text, func() { d = compare(w.vs, w.spec, checkProposer) })
		if d == nil {
			return
		}
		ev.Guard(w.t, w.text, func() { da = compare(w.vs, alt, checkProposer) })
		if da == nil {
			// exactly the specification minus the window step: defect D3
			if ev.Violation(w.t, keyD3, w.text(),
				"after %s the implementation differs from the specification (%s) and equals the specification without the 2*total priority window exactly: priorities are never rescaled\n impl  %s\n spec  %s",
				action, d.msg, snap(w.vs), w.spec) {
				// w.spec lives on as the pure specification (used by the fairness self-check only)
				w.mode, w.alt = modeAlt, alt
				w.class("d3-deviation")
			}
			return
		}
		w.report(action, d, w.spec, newcomers, fmt.Sprintf(" (without the window step the model would give %s)", alt))
		return
	}
	w.alt.clipped, w.spec.clipped = false, false
	f(w.alt)
	f(w.spec)
	var d *mismatch
	ev.Guard(w.t, w.text, func() { d = compare(w.vs, w.alt, checkProposer) })
	if d != nil {
		w.report(action, d, w.alt, newcomers, " (no-window model, D3 already shown in this history)")
	}
}

// report turns a mismatch into a violation with a key that says what failed.
func (w *world) report(action string, d *mismatch, m *model, newcomers map[common.Address]bool, extra string) {
	key := ""
	prefix := "update" // the action was a change set
	switch action {
	case "new":
		prefix = "new-set" // NewValidatorSet: change set on the empty set + one round
	case "block":
		prefix = "block" // updateState: change set (if any) + one round
	case "increment":
		prefix = "rotation"
	}
	switch {
	case action == "block" && w.preBlock != nil && w.roundsVariantMatches() != "":
		key = "state.rounds-per-block"
		extra += " — NextValidators " + w.roundsVariantMatches() + "; exactly one round per block is expected"
	case m.clipped:
		key = "overflow." + action // the specification had to clip: int64 arithmetic left its range
	case d.field == "proposer":
		key = "rotation.proposer"
	case d.field == "priorities" && prefix == "rotation":
		key = "rotation.priorities"
	case d.field == "priorities":
		key = prefix + ".priorities"
		switch w.offsetPattern(m, newcomers) {
		case "newcomers-differ":
			key = "update.newcomer-priority"
		case "all-shifted":
			key = "update.centring"
		}
	case prefix == "rotation":
		key = "rotation.set-changed" // a round changed membership, power, order or total
	case d.field == "membership" || d.field == "power":
		key = prefix + ".membership"
	default:
		key = prefix + "." + d.field // order, total
	}
	if ev.Violation(w.t, key, w.text(), "after %s: %s%s\n impl  %s\n model %s", action, d.msg, extra, snap(w.vs), m) {
		// listed as known: implementation and model have parted, nothing after this point can be judged
		w.dead = true
		w.class("abandoned-after-known:" + key)
	}
}

// roundsVariantMatches: the failing block result equals the change set followed by no round or by two rounds.
func (w *world) roundsVariantMatches() string {
	for _, rounds := range []int{0, 2} {
		v := w.preBlock.clone()
		if len(w.blockChanges) > 0 {
			v.update(w.blockChanges)
		}
		for i := 0; i < rounds; i++ {
			v.increment(1)
		}
		if compare(w.vs, v, false) == nil {
			if rounds == 0 {
				return "was not advanced by the block"
			}
			return "was advanced by two rounds"
		}
	}
	return ""
}

// offsetPattern looks at implementation-minus-model priority offsets: "all-shifted" when every member is off by the
// same amount (centring), "newcomers-differ" when the old members agree on one offset (their relative priorities are
// right) and a newcomer does not (its starting value is wrong), "" otherwise.
func (w *world) offsetPattern(m *model, newcomers map[common.Address]bool) string {
	first, anyOld := true, false
	var off int64
	for _, v := range w.vs.Validators {
		if newcomers[v.Address] {
			continue
		}
		mv := m.find(v.Address)
		if mv == nil {
			return ""
		}
		anyOld = true
		o := v.ProposerPriority - mv.prio
		if first {
			off, first = o, false
		} else if o != off {
			return ""
		}
	}
	if !anyOld {
		return ""
	}
	for _, v := range w.vs.Validators {
		if !newcomers[v.Address] {
			continue
		}
		mv := m.find(v.Address)
		if mv == nil || v.ProposerPriority-mv.prio != off {
			return "newcomers-differ"
		}
	}
	return "all-shifted"
}

// noteMagnitude records how close to the int64 limits the implementation's priorities have come (overflow clause).
func (w *world) noteMagnitude() {
	if w.vs == nil {
		return
	}
	for _, v := range w.vs.Validators {
		a := v.ProposerPriority
		if a < 0 {
			a = -a
		}
		if a < 0 { // MinInt64
			a = 1<<63 - 1
		}
		if a > w.maxAbs {
			w.maxAbs = a
		}
	}
}

func (w *world) magnitudeClass() string {
	switch {
	case w.maxAbs < 1<<32:
		return "max|priority|<2^32"
	case w.maxAbs < capM:
		return "max|priority|<cap"
	case w.maxAbs < 2*capM:
		return "max|priority|<2cap"
	case w.maxAbs < 4*capM:
		return "max|priority|<4cap"
	default:
		return "max|priority|>=4cap(MaxInt64/2)"
	}
}

// ---------------------------------------------------------------- actions

func (w *world) noteRounds(k int64) {
	if w.qualified {
		w.roundsAfter += k
		if w.roundsAfter >= w.needRounds {
			w.nontrivial = true
		}
	}
}

func (w *world) inc(k int64) {
	if w.dead {
		return
	}
	w.logf("inc%d", k)
	ev.Guard(w.t, w.text, func() { w.vs.IncrementProposerPriority(k) })
	w.settle("increment", func(m *model) { m.increment(k) }, true, nil)
	w.noteRounds(k)
}

// copyInc: CopyIncrementProposerPriority must leave the receiver alone and return the advanced set.
func (w *world) copyInc(k int64) {
	if w.dead {
		return
	}
	w.logf("cinc%d", k)
	before := snap(w.vs)
	var cp *types.ValidatorSet
	ev.Guard(w.t, w.text, func() { cp = w.vs.CopyIncrementProposerPriority(k) })
	if after := snap(w.vs); after != before {
		ev.Violation(w.t, "copy.not-independent", w.text(), "CopyIncrementProposerPriority(%d) changed the receiver\n before %s\n after  %s", k, before, after)
	}
	w.vs = cp
	w.settle("increment", func(m *model) { m.increment(k) }, true, nil)
	w.noteRounds(k)
	w.class("copy-increment")
}

// copyStep: continue on a Copy; advancing the original afterwards must not show in the copy.
func (w *world) copyStep() {
	if w.dead {
		return
	}
	w.logf("copy")
	before := snap(w.vs)
	var cp *types.ValidatorSet
	ev.Guard(w.t, w.text, func() { cp = w.vs.Copy() })
	if got := snap(cp); got != before {
		ev.Violation(w.t, "copy.differs", w.text(), "Copy differs from the original\n orig %s\n copy %s", before, got)
	}
	ev.Guard(w.t, w.text, func() { w.vs.IncrementProposerPriority(2) })
	if got := snap(cp); got != before {
		ev.Violation(w.t, "copy.not-independent", w.text(), "advancing the original changed its copy\n before %s\n after  %s", before, got)
	}
	w.vs = cp
	w.class("copy")
}

// protoStep: continue on the set that went through ToProto / ValidatorSetFromProto (how the state store keeps it).
func (w *world) protoStep() {
	if w.dead {
		return
	}
	w.logf("proto")
	before := snap(w.vs)
	var back *types.ValidatorSet
	var err error
	ev.Guard(w.t, w.text, func() {
		p, e := w.vs.ToProto()
		if e != nil {
			err = e
			return
		}
		bz, e := p.Marshal()
		if e != nil {
			err = e
			return
		}
		p2 := new(kproto.ValidatorSet)
		if e := p2.Unmarshal(bz); e != nil {
			err = e
			return
		}
		back, err = types.ValidatorSetFromProto(p2)
	})
	if err != nil {
		ev.Violation(w.t, "proto.error", w.text(), "proto round trip failed: %v (set %s)", err, before)
	}
	if got := snap(back); got != before {
		ev.Violation(w.t, "proto.roundtrip", w.text(), "set changed in the proto round trip\n before %s\n after  %s", before, got)
	}
	w.vs = back
	w.class("proto")
}

func permutations(n int) [][]int {
	if n > 4 {
		// rotations and the reversal
		var out [][]int
		for r := 1; r < n; r++ {
			p := make([]int, n)
			for i := range p {
				p[i] = (i + r) % n
			}
			out = append(out, p)
		}
		rev := make([]int, n)
		for i := range rev {
			rev[i] = n - 1 - i
		}
		return append(out, rev)
	}
	var out [][]int
	var rec func(cur []int, used int)
	rec = func(cur []int, used int) {
		if len(cur) == n {
			out = append(out, append([]int{}, cur...))
			return
		}
		for i := 0; i < n; i++ {
			if used&(1<<i) == 0 {
				rec(append(cur, i), used|1<<i)
			}
		}
	}
	rec(nil, 0)
	return out[1:] // without the identity
}

func permute(cs []chg, p []int) []chg {
	out := make([]chg, len(cs))
	for i, j := range p {
		out[i] = cs[j]
	}
	return out
}

// update offers a change set. The model decides whether the property wants it accepted.
func (w *world) update(changes []chg) {
	if w.dead {
		return
	}
	m := w.cur()
	kinds := m.classify(changes)
	if w.lean && len(kinds) == 0 {
		w.logf("upd:%s", chgText(changes))
		var err error
		ev.Guard(w.t, w.text, func() { err = w.vs.UpdateWithChangeSet(toValidators(changes)) })
		if err != nil {
			ev.Violation(w.t, "update.valid-rejected", w.text(), "valid change set [%s] rejected: %v", chgText(changes), err)
		}
		w.settle("update", func(mm *model) { mm.update(changes) }, false, nil)
		return
	}
	pre := snap(w.vs)
	preSet := cloneSet(w.vs)
	in := toValidators(changes)
	inBefore := valsText(in)
	if len(kinds) > 0 {
		w.logf("bad(%s):%s", strings.Join(kinds, "+"), chgText(changes))
	} else {
		w.logf("upd:%s", chgText(changes))
	}
	var err error
	ev.Guard(w.t, w.text, func() { err = w.vs.UpdateWithChangeSet(in) })
	if got := valsText(in); got != inBefore {
		ev.Violation(w.t, "update.input-mutated", w.text(), "UpdateWithChangeSet changed the caller's entries: %s -> %s", inBefore, got)
	}
	perms := permutations(len(changes))
	if len(kinds) > 0 {
		for _, k := range kinds {
			w.class("invalid:" + k)
		}
		if err == nil {
			ev.Violation(w.t, "update.invalid-accepted:"+kinds[0], w.text(), "change set [%s] must be rejected (%s) but was accepted\n before %s\n after  %s",
				chgText(changes), strings.Join(kinds, ", "), pre, snap(w.vs))
		}
		if got := snap(w.vs); got != pre {
			ev.Violation(w.t, "update.not-atomic", w.text(), "rejected change set [%s] (%v) changed the set\n before %s\n after  %s", chgText(changes), err, pre, got)
		}
		for _, p := range perms {
			c := cloneSet(preSet)
			pc := permute(changes, p)
			var e2 error
			ev.Guard(w.t, w.text, func() { e2 = c.UpdateWithChangeSet(toValidators(pc)) })
			if e2 == nil {
				ev.Violation(w.t, "update.invalid-accepted:"+kinds[0], w.text(), "change set [%s] (%s) is rejected in one order and accepted as [%s]",
					chgText(changes), strings.Join(kinds, ", "), chgText(pc))
			}
			if got := snap(c); got != pre {
				ev.Violation(w.t, "update.not-atomic", w.text(), "rejected change set [%s] (%v) changed the set\n before %s\n after  %s", chgText(pc), e2, pre, got)
			}
		}
		return
	}
	if err != nil {
		ev.Violation(w.t, "update.valid-rejected", w.text(), "valid change set [%s] rejected: %v\n set %s", chgText(changes), err, pre)
	}
	// classes and the non-trivial rule
	oldTotal := m.total()
	oldN := len(m.vals)
	newcomers := map[common.Address]bool{}
	for _, c := range changes {
		if c.power > 0 && m.find(c.addr) == nil {
			newcomers[c.addr] = true
		}
	}
	w.settle("update", func(mm *model) { mm.update(changes) }, false, newcomers)
	m = w.cur()
	newTotal := m.total()
	w.class("update-valid")
	removal := false
	for _, c := range changes {
		if c.power == 0 {
			removal = true
		}
	}
	if removal {
		w.class("update-removal")
	}
	if len(newcomers) > 0 {
		w.class("update-newcomer")
	}
	if removal && len(newcomers) > 0 {
		w.class("update-add+remove")
	}
	big2 := newTotal/2 > oldTotal || oldTotal/2 > newTotal
	if big2 {
		w.class("update-total-x2")
	}
	if newTotal == capM {
		w.class("total-at-cap")
	}
	if oldN > 0 && (big2 || len(newcomers) > 0) {
		w.qualified, w.roundsAfter, w.needRounds = true, 0, int64(len(m.vals))
	}
	// every other order of the entries gives the same set
	if len(perms) > 0 {
		want := snap(w.vs)
		for _, p := range perms {
			c := cloneSet(preSet)
			pc := permute(changes, p)
			var e2 error
			ev.Guard(w.t, w.text, func() { e2 = c.UpdateWithChangeSet(toValidators(pc)) })
			if e2 != nil {
				ev.Violation(w.t, "update.order-dependent", w.text(), "change set accepted as [%s] is rejected as [%s]: %v", chgText(changes), chgText(pc), e2)
			}
			if got := snap(c); got != want {
				ev.Violation(w.t, "update.order-dependent", w.text(), "the order of the entries changes the result\n [%s] -> %s\n [%s] -> %s", chgText(changes), want, chgText(pc), got)
			}
		}
		w.class("update-permuted")
	}
}

// drift builds a world of ten dust validators and applies `steps` change sets of the pattern that moves one old
// member's priority up by about a tenth of the cap each time when nothing enforces the window: the previous
// newcomer shrinks to power 1, the oldest dust member (never the first one) leaves, a newcomer takes the rest of the
// cap. Every change set is valid; around 77 steps the priority reaches MaxInt64.
func drift(t ev.TB, steps int) *world {
	var initial []chg
	for i := 0; i < 10; i++ {
		initial = append(initial, chg{pool[i], 1})
	}
	w := newWorld(t, initial)
	w.lean = true
	defer func() { w.lean = false }()
	lows := append([]common.Address{}, pool[1:10]...)
	spare := []common.Address{pool[10], pool[11]}
	for s := 0; s < steps && !w.dead; s++ {
		m := w.cur()
		oldest, last := lows[0], lows[len(lows)-1]
		lows = lows[1:]
		var cs []chg
		tot := m.total() - m.find(oldest).power
		if p := m.find(last).power; p > 1 {
			tot -= p - 1
			cs = append(cs, chg{last, 1})
		}
		nw := spare[0]
		spare = append(spare[1:], oldest)
		cs = append(cs, chg{oldest, 0}, chg{nw, capM - tot})
		lows = append(lows, nw)
		w.update(cs)
	}
	return w
}

// ---------------------------------------------------------------- the state machine

func TestRotationModel(t *testing.T) {
	maxSteps := ev.Scale("STEPS", 24)
	rapid.Check(t, func(t *rapid.T) {
		var w *world
		if rapid.IntRange(0, 39).Draw(t, "drift") == 39 {
			// start from a state in which valid change sets alone have driven a priority far out (see drift)
			w = drift(t, rapid.IntRange(30, 90).Draw(t, "driftsteps"))
			w.class("init-drifted")
		} else {
			initial, shape := genInitial(t)
			w = newWorld(t, initial)
			w.class("init-" + shape)
		}
		n := rapid.IntRange(1, maxSteps).Draw(t, "steps")
		for i := 0; i < n; i++ {
			op := rapid.IntRange(0, 99).Draw(t, "op")
			switch {
			case op < 40:
				w.inc(int64(rapid.IntRange(1, 3).Draw(t, "k")))
			case op < 46:
				w.inc(int64(rapid.IntRange(4, 30).Draw(t, "k")))
			case op < 48:
				w.inc(int64(rapid.IntRange(1000, 5000).Draw(t, "k")))
				w.class("increment-thousands")
			case op < 54:
				w.copyInc(int64(rapid.IntRange(1, 4).Draw(t, "k")))
			case op < 76:
				w.update(genValidChanges(t, w.cur()))
			case op < 90:
				w.update(genInvalidChanges(t, w.cur()))
			case op < 95:
				w.copyStep()
			default:
				w.protoStep()
			}
		}
		if w.mode == modeAlt {
			w.class("followed-no-window-model")
		}
		ev.Case(w.nontrivial, w.text(), w.classes()...)
		if w.nontrivial && ev.WantSample("history") {
			ev.Sample("history", w.text())
		}
		if w.mode == modeAlt && ev.WantSample("d3-history") {
			ev.Sample("d3-history", w.text())
		}
	})
}
