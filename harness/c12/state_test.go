package c12

// The block-execution side of the property (kai/state/cstate/execution.go): after every block the application
// reports its whole validator list; calculateValidatorSetUpdates turns it into a change set against NextValidators
// and updateState applies it and advances NextValidators by exactly one round. Checked here at library level
// (no running chain needed, both functions are pure): the derived change set is exactly the difference, the new
// NextValidators equals the specification (same two-model oracle), the sets shift by one height, and neither the
// order in which the application lists its validators nor Go's map iteration order (removals are emitted by ranging
// over a map) changes the result.

import (
	"fmt"
	"sort"
	"testing"
	"time"

	"pgregory.net/rapid"

	"github.com/kardiachain/go-kardia/kai/state/cstate"
	"github.com/kardiachain/go-kardia/lib/common"
	"github.com/kardiachain/go-kardia/lib/log"
	"github.com/kardiachain/go-kardia/types"

	"verifharness/internal/ev"
)

// genAppList draws what the staking contract reports after a block: nil (nothing to report) or the complete list of
// validators with their powers, in the contract's order. Members that left are usually absent, sometimes listed
// with power 0.
func genAppList(t *rapid.T, m *model) (app []chg, kind string) {
	switch k := rapid.IntRange(0, 9).Draw(t, "report"); {
	case k == 0:
		return nil, "none"
	case k == 1:
		for _, v := range m.vals {
			app = append(app, chg{v.addr, v.power})
		}
		return shuffle(t, app), "unchanged"
	}
	changes := genValidChanges(t, m)
	final := map[common.Address]int64{}
	for _, v := range m.vals {
		final[v.addr] = v.power
	}
	for _, c := range changes {
		if c.power == 0 {
			delete(final, c.addr)
			if rapid.IntRange(0, 3).Draw(t, "listzero") == 0 {
				app = append(app, chg{c.addr, 0})
			}
		} else {
			final[c.addr] = c.power
		}
	}
	for _, a := range pool { // deterministic order before the drawn shuffle
		if p, ok := final[a]; ok {
			app = append(app, chg{a, p})
		}
	}
	return shuffle(t, app), "changed"
}

// wantDiff is the change set that turns the membership of m into the reported list.
func wantDiff(m *model, app []chg) []chg {
	if len(app) == 0 {
		return nil
	}
	var out []chg
	listed := map[common.Address]bool{}
	for _, c := range app {
		listed[c.addr] = true
		mv := m.find(c.addr)
		switch {
		case mv != nil && mv.power == c.power:
		case mv == nil && c.power == 0:
		default:
			out = append(out, c)
		}
	}
	for _, v := range m.vals {
		if !listed[v.addr] {
			out = append(out, chg{v.addr, 0})
		}
	}
	sort.Slice(out, func(i, j int) bool { return name(out[i].addr) < name(out[j].addr) })
	return out
}

func TestStateUpdate(t *testing.T) {
	logger := log.NewNopLogger()
	rapid.Check(t, func(t *rapid.T) {
		initial, shape := genInitial(t)
		// genesis exactly as MakeGenesisState builds it
		w := newWorld(t, initial)
		w.class("init-" + shape)
		validators := w.vs
		w.copyInc(1)
		state := cstate.LatestBlockState{ChainID: "c12", InitialHeight: 1, Validators: validators, NextValidators: w.vs, LastHeightValidatorsChanged: 1}
		blocks := rapid.IntRange(1, 6).Draw(t, "blocks")
		interesting := false
		for h := 1; h <= blocks && !w.dead; h++ {
			m := w.cur()
			app, kind := genAppList(t, m)
			want := wantDiff(m, app)
			if k := m.classify(want); len(k) > 0 {
				t.Fatalf("harness error: generated application list is not a legal validator set: %v %s", k, chgText(app))
			}
			w.logf("block%d:%s[%s]", h, kind, chgText(app))
			w.class("report-" + kind)
			preNext, preVals := snap(state.NextValidators), snap(state.Validators)
			preClone := cloneSet(state.NextValidators)

			var updates []*types.Validator
			ev.Guard(t, w.text, func() {
				updates = cstate.VerifC12CalculateValidatorSetUpdates(state.NextValidators.Validators, toValidators(app))
			})
			got := map[common.Address]int64{}
			for _, u := range updates {
				if _, dup := got[u.Address]; dup {
					ev.Violation(t, "appdiff.wrong-changes", w.text(), "derived change set lists %s twice: %s", name(u.Address), valsText(updates))
				}
				got[u.Address] = u.VotingPower
			}
			ok := len(got) == len(want)
			for _, c := range want {
				if p, in := got[c.addr]; !in || p != c.power {
					ok = false
				}
			}
			if !ok {
				ev.Violation(t, "appdiff.wrong-changes", w.text(), "set %s, application reports [%s]: derived change set %s, the difference is [%s]",
					preNext, chgText(app), valsText(updates), chgText(want))
			}

			header := &types.Header{Height: uint64(h), Time: time.Unix(1600000000+int64(h), 0)}
			var ns cstate.LatestBlockState
			var err error
			ev.Guard(t, w.text, func() { ns, err = cstate.VerifC12UpdateState(logger, state, types.BlockID{}, header, updates) })
			if err != nil {
				ev.Violation(t, "appdiff.update-rejected", w.text(), "the application's validator list [%s] could not be applied to %s: %v", chgText(app), preNext, err)
			}
			if g := snap(ns.Validators); g != preNext {
				ev.Violation(t, "state.set-shift", w.text(), "Validators after the block must be the previous NextValidators\n want %s\n got  %s", preNext, g)
			}
			if g := snap(ns.LastValidators); g != preVals {
				ev.Violation(t, "state.set-shift", w.text(), "LastValidators after the block must be the previous Validators\n want %s\n got  %s", preVals, g)
			}
			if ns.LastBlockHeight != uint64(h) {
				ev.Violation(t, "state.height", w.text(), "LastBlockHeight %d after block %d", ns.LastBlockHeight, h)
			}
			newcomers := map[common.Address]bool{}
			removal := false
			for _, c := range want {
				if c.power > 0 && m.find(c.addr) == nil {
					newcomers[c.addr] = true
				}
				if c.power == 0 {
					removal = true
				}
			}
			if len(want) > 0 && (removal || len(newcomers) > 0) {
				interesting = true
			}
			if len(want) >= 2 {
				w.class("block-changeset>=2")
			}
			if removal {
				w.class("block-removal")
			}
			w.vs = ns.NextValidators
			// only consulted if the comparison fails: tells "no round" / "two rounds" apart from other deviations
			w.preBlock, w.blockChanges = m.clone(), want
			w.settle("block", func(mm *model) {
				if len(want) > 0 {
					mm.update(want)
				}
				mm.increment(1)
			}, true, newcomers)
			w.noteRounds(1)
			if w.dead {
				break
			}

			// the same report in another order, from an independent copy of the previous state
			if len(app) >= 2 {
				app2 := shuffle(t, app)
				s2 := state
				s2.NextValidators = preClone
				var ns2 cstate.LatestBlockState
				var err2 error
				ev.Guard(t, w.text, func() {
					u2 := cstate.VerifC12CalculateValidatorSetUpdates(s2.NextValidators.Validators, toValidators(app2))
					ns2, err2 = cstate.VerifC12UpdateState(logger, s2, types.BlockID{}, header, u2)
				})
				if err2 != nil {
					ev.Violation(t, "appdiff.order-dependent", w.text(), "report [%s] applies, the same report as [%s] fails: %v", chgText(app), chgText(app2), err2)
				}
				if a, b := snap(ns.NextValidators), snap(ns2.NextValidators); a != b {
					ev.Violation(t, "appdiff.order-dependent", w.text(), "the order of the application's validator list changes NextValidators\n [%s] -> %s\n [%s] -> %s",
						chgText(app), a, chgText(app2), b)
				}
				w.class("report-permuted")
			}
			state = ns
		}
		if w.mode == modeAlt {
			w.class("followed-no-window-model")
		}
		ev.Case(interesting, "state:"+w.text(), w.classes()...)
		if interesting && ev.WantSample("blocks") {
			ev.Sample("blocks", fmt.Sprintf("%s", w.text()))
		}
	})
}
