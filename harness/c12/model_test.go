package c12

// Executable transcription of the proposer-selection specification the property quotes:
//
//   round (IncrementProposerPriority(times)):
//     1. window: if max(A)-min(A) > 2*P, divide every priority by ceil(diff / 2P) (integer division truncating
//        towards zero);
//     2. centre: subtract the floor average of the priorities;
//     3. times x { A(i) += VP(i) for all i ; the validator with the highest priority (ties: lower address)
//        proposes and pays P }.
//   change set (UpdateWithChangeSet):
//     valid iff no duplicate address, no negative power, no entry above the cap, every removal (power 0) names a
//     member, the result is not empty and the resulting total is <= cap = MaxInt64/8; an invalid change set leaves
//     the set untouched. A valid one: changed members keep their priority; newcomers start at -(U + U/8) where U is
//     the total after the additions/changes and before the removals; removals are applied after the updates; then
//     window (2 * new total) and centre; members are listed by power descending, then address ascending.
//
// Arithmetic is int64 with an exact fast path and a big.Int slow path that clips explicitly (and records that it
// had to), so that a silent wrap-around in the implementation shows up as a difference.
//
// The same model runs with rescale=false: that is the specification minus step 1, i.e. what the implementation does
// because of defect D3 (computeMaxMinPriorityDiff always returns 1).

import (
	"bytes"
	"fmt"
	"math"
	"math/big"
	"sort"
	"strings"

	"github.com/kardiachain/go-kardia/lib/common"
)

const capM = int64(math.MaxInt64 / 8) // the cap of the property statement ("sum of powers, capped at MaxInt64/8")

type mval struct {
	addr  common.Address
	power int64
	prio  int64
}

type chg struct {
	addr  common.Address
	power int64
}

type model struct {
	vals     []*mval // canonical order: power descending, then address ascending
	proposer common.Address
	rescale  bool

	clipped bool // some operation left the int64 range since the flag was last reset (the specification clips there)
	fired   bool // the window step of the last action actually divided
}

func (m *model) clone() *model {
	c := &model{proposer: m.proposer, rescale: m.rescale, clipped: m.clipped, fired: m.fired}
	c.vals = make([]*mval, len(m.vals))
	for i, v := range m.vals {
		x := *v
		c.vals[i] = &x
	}
	return c
}

func (m *model) find(a common.Address) *mval {
	for _, v := range m.vals {
		if v.addr == a {
			return v
		}
	}
	return nil
}

const safeLim = int64(1) << 61

func small(a int64) bool { return a > -safeLim && a < safeLim }

func (m *model) clip(x *big.Int) int64 {
	if x.IsInt64() {
		return x.Int64()
	}
	m.clipped = true
	if x.Sign() > 0 {
		return math.MaxInt64
	}
	return math.MinInt64
}

func (m *model) add(a, b int64) int64 {
	if small(a) && small(b) {
		return a + b
	}
	return m.clip(new(big.Int).Add(big.NewInt(a), big.NewInt(b)))
}

func (m *model) sub(a, b int64) int64 {
	if small(a) && small(b) {
		return a - b
	}
	return m.clip(new(big.Int).Sub(big.NewInt(a), big.NewInt(b)))
}

func (m *model) total() int64 {
	t := int64(0)
	for _, v := range m.vals {
		t = m.add(t, v.power)
	}
	return t
}

func (m *model) window() {
	if !m.rescale || len(m.vals) == 0 {
		return
	}
	diffMax := m.add(m.total(), m.total())
	if diffMax <= 0 {
		return
	}
	max, min := m.vals[0].prio, m.vals[0].prio
	for _, v := range m.vals {
		if v.prio > max {
			max = v.prio
		}
		if v.prio < min {
			min = v.prio
		}
	}
	if small(max) && small(min) {
		diff := max - min
		if diff > diffMax {
			ratio := (diff + diffMax - 1) / diffMax
			for _, v := range m.vals {
				v.prio = v.prio / ratio // Go's / truncates towards zero
			}
			m.fired = true
		}
		return
	}
	diff := new(big.Int).Sub(big.NewInt(max), big.NewInt(min))
	dm := big.NewInt(diffMax)
	if diff.Cmp(dm) > 0 {
		ratio := new(big.Int).Add(diff, dm)
		ratio.Sub(ratio, big.NewInt(1))
		ratio.Quo(ratio, dm)
		for _, v := range m.vals {
			v.prio = new(big.Int).Quo(big.NewInt(v.prio), ratio).Int64()
		}
		m.fired = true
	}
}

func floorDiv(a, n int64) int64 {
	q := a / n
	if a%n != 0 && a < 0 {
		q--
	}
	return q
}

func (m *model) centre() {
	n := int64(len(m.vals))
	if n == 0 {
		return
	}
	allSmall := true
	for _, v := range m.vals {
		if v.prio <= -(1<<57) || v.prio >= 1<<57 {
			allSmall = false
		}
	}
	var avg int64
	if allSmall {
		s := int64(0)
		for _, v := range m.vals {
			s += v.prio
		}
		avg = floorDiv(s, n)
	} else {
		s := new(big.Int)
		for _, v := range m.vals {
			s.Add(s, big.NewInt(v.prio))
		}
		// big.Int.Div is Euclidean division: for a positive divisor that is the floor
		avg = m.clip(s.Div(s, big.NewInt(n)))
	}
	for _, v := range m.vals {
		v.prio = m.sub(v.prio, avg)
	}
}

func (m *model) round() *mval {
	t := m.total()
	var best *mval
	for _, v := range m.vals {
		v.prio = m.add(v.prio, v.power)
		if best == nil || v.prio > best.prio || (v.prio == best.prio && bytes.Compare(v.addr[:], best.addr[:]) < 0) {
			best = v
		}
	}
	best.prio = m.sub(best.prio, t)
	return best
}

func (m *model) increment(times int64) {
	m.fired = false
	m.window()
	m.centre()
	var p *mval
	for i := int64(0); i < times; i++ {
		p = m.round()
	}
	m.proposer = p.addr
}

// classify returns the reasons (canonical order) for which the property says the change set must be rejected.
func (m *model) classify(changes []chg) []string {
	var kinds []string
	seen := map[common.Address]int{}
	dup, neg, above, unknown := false, false, false, false
	for _, c := range changes {
		seen[c.addr]++
		if seen[c.addr] > 1 {
			dup = true
		}
		if c.power < 0 {
			neg = true
		}
		if c.power > capM {
			above = true
		}
		if c.power == 0 && m.find(c.addr) == nil {
			unknown = true
		}
	}
	if dup {
		kinds = append(kinds, "duplicate")
	}
	if neg {
		kinds = append(kinds, "negative")
	}
	if above {
		kinds = append(kinds, "power-above-cap")
	}
	if unknown {
		kinds = append(kinds, "remove-unknown")
	}
	if !dup && !neg {
		final := map[common.Address]int64{}
		for _, v := range m.vals {
			final[v.addr] = v.power
		}
		for _, c := range changes {
			if c.power == 0 {
				delete(final, c.addr)
			} else {
				final[c.addr] = c.power
			}
		}
		if len(final) == 0 {
			kinds = append(kinds, "empties-set")
		}
		sum := new(big.Int)
		for _, p := range final {
			sum.Add(sum, big.NewInt(p))
		}
		if sum.Cmp(big.NewInt(capM)) > 0 {
			kinds = append(kinds, "total-above-cap")
		}
	}
	return kinds
}

// update applies a change set that classify() found valid. It returns the set of newcomers.
func (m *model) update(changes []chg) map[common.Address]bool {
	m.fired = false
	newcomers := map[common.Address]bool{}
	u := m.total()
	for _, c := range changes {
		if c.power == 0 {
			continue
		}
		if ex := m.find(c.addr); ex != nil {
			u = m.add(u, m.sub(c.power, ex.power))
		} else {
			u = m.add(u, c.power)
		}
	}
	start := m.sub(0, m.add(u, u>>3))
	for _, c := range changes {
		if c.power == 0 {
			continue
		}
		if ex := m.find(c.addr); ex != nil {
			ex.power = c.power
		} else {
			m.vals = append(m.vals, &mval{addr: c.addr, power: c.power, prio: start})
			newcomers[c.addr] = true
		}
	}
	for _, c := range changes {
		if c.power != 0 {
			continue
		}
		for i, v := range m.vals {
			if v.addr == c.addr {
				m.vals = append(m.vals[:i:i], m.vals[i+1:]...)
				break
			}
		}
	}
	m.window()
	m.centre()
	sort.SliceStable(m.vals, func(i, j int) bool {
		if m.vals[i].power != m.vals[j].power {
			return m.vals[i].power > m.vals[j].power
		}
		return bytes.Compare(m.vals[i].addr[:], m.vals[j].addr[:]) < 0
	})
	return newcomers
}

// newModel is the specification of NewValidatorSet: every validator is a newcomer of an empty set, then one round.
func newModel(initial []chg, rescale bool) *model {
	m := &model{rescale: rescale}
	m.update(initial)
	m.increment(1)
	return m
}

func (m *model) String() string {
	var b strings.Builder
	for _, v := range m.vals {
		fmt.Fprintf(&b, "%s:%d:%d,", name(v.addr), v.power, v.prio)
	}
	fmt.Fprintf(&b, "|prop=%s|tot=%d", name(m.proposer), m.total())
	return b.String()
}
