package c12

import (
	"fmt"
	"math"
	"testing"

	"github.com/kardiachain/go-kardia/lib/common"
	"github.com/kardiachain/go-kardia/types"

	"verifharness/internal/ev"
)

// TestDirected: the reproducer of the known finding D3 and a fixed table of edge-case change sets that go through
// the same oracle as the generated ones (so that they are exercised on every run, whatever the seed).
func TestDirected(t *testing.T) {
	t.Run("D3-window-not-enforced", reproduceD3)
	t.Run("overflow-in-round", reproduceOverflow)
	t.Run("edge-change-sets", directedChangeSets)
}

// reproduceD3: two validators of power 1; a third with 10^18 joins, one round passes (v0 proposes and pays the
// huge total), the third leaves. The specification now rescales the spread of ~10^18 into the window 2*total = 4,
// after which v0 and v1 alternate. The implementation never rescales (computeMaxMinPriorityDiff starts max at
// MaxInt64 and min at MinInt64, so the difference it returns is always 1): v1 proposes every round and v0 would
// have to wait ~5*10^17 rounds.
func reproduceD3(t *testing.T) {
	a, b, c := pool[0], pool[1], pool[2]
	vs := types.NewValidatorSet(toValidators([]chg{{a, 1}, {b, 1}}))
	spec := newModel([]chg{{a, 1}, {b, 1}}, true)
	nowin := newModel([]chg{{a, 1}, {b, 1}}, false)
	steps := []func(m *model){
		func(m *model) { m.update([]chg{{c, 1e18}}) },
		func(m *model) { m.increment(1) },
		func(m *model) { m.update([]chg{{c, 0}}) },
	}
	if err := vs.UpdateWithChangeSet(toValidators([]chg{{c, 1e18}})); err != nil {
		t.Fatalf("harness: %v", err)
	}
	vs.IncrementProposerPriority(1)
	if err := vs.UpdateWithChangeSet(toValidators([]chg{{c, 0}})); err != nil {
		t.Fatalf("harness: %v", err)
	}
	for _, s := range steps {
		s(spec)
		s(nowin)
	}
	const rounds = 1000
	implCount, specCount := map[string]int{}, map[string]int{}
	equalsSpec, equalsNoWindow := true, true
	maxSpread := int64(0)
	for r := 0; r < rounds; r++ {
		vs.IncrementProposerPriority(1)
		spec.increment(1)
		nowin.increment(1)
		implCount[name(vs.GetProposer().Address)]++
		specCount[name(spec.proposer)]++
		if compare(vs, spec, true) != nil {
			equalsSpec = false
		}
		if compare(vs, nowin, true) != nil {
			equalsNoWindow = false
		}
		lo, hi := int64(math.MaxInt64), int64(math.MinInt64)
		for _, v := range vs.Validators {
			if v.ProposerPriority < lo {
				lo = v.ProposerPriority
			}
			if v.ProposerPriority > hi {
				hi = v.ProposerPriority
			}
		}
		if hi-lo > maxSpread {
			maxSpread = hi - lo
		}
	}
	total := vs.TotalVotingPower()
	starved := implCount[name(a)] == 0 || implCount[name(b)] == 0
	reproduced := !equalsSpec && equalsNoWindow && maxSpread > 3*total+1
	t.Logf("total power %d; proposals in %d rounds: implementation %v, specification %v; priority spread in the implementation %d (window 2*total = %d); equals spec: %v, equals spec-without-window: %v, a validator with half the power never proposed: %v",
		total, rounds, implCount, specCount, maxSpread, 2*total, equalsSpec, equalsNoWindow, starved)
	ev.KnownReproduced(keyD3, reproduced)
	if !reproduced && !equalsSpec {
		// neither the specification nor the known deviation: that is a new finding, not D3
		ev.Violation(t, "rotation.priorities", "directed D3 scenario", "the D3 scenario matches neither the specification nor the specification without the window step; impl %s spec %s", snap(vs), spec)
	}
	ev.Case(true, "directed:D3", "directed")
}

const keyOverflow = "overflow.increment"

// reproduceOverflow: incrementProposerPriority adds the voting power with a plain + (upstream clips with
// safeAddClip; the comment "Check for overflow for sum" is still there). With the window enforced priorities stay
// within a few totals and the addition cannot overflow; with D3 nothing bounds them: a set of ten in which, change
// set after change set, a newcomer takes (nearly) the whole cap while the previous one shrinks to 1 and the oldest
// dust member leaves, drives the priority of one old dust validator up by ~0.1*cap each time (newcomers start at
// -1.125*total and centring lifts everybody else). After 77 change sets centring clips it at MaxInt64 (as
// specified); the next round adds its power 1 and wraps it to MinInt64: the validator that was next to propose is
// now last. The specification (with or without the window) clips instead.
func reproduceOverflow(t *testing.T) {
	addr := func(i int) common.Address { return common.Address{0xee, byte(i >> 8), byte(i)} }
	const n = 10
	var initial []chg
	for i := 0; i < n; i++ {
		initial = append(initial, chg{addr(i), 1})
	}
	h := addr(0)
	vs := types.NewValidatorSet(toValidators(initial))
	nowin := newModel(initial, false)
	spec := newModel(initial, true)
	lows := []common.Address{}
	for i := 1; i < n; i++ {
		lows = append(lows, addr(i))
	}
	next := n
	reproduced, atStep := false, 0
	specClipped := false
	detail := ""
	for step := 1; step <= 120 && !reproduced; step++ {
		oldest, last := lows[0], lows[len(lows)-1]
		lows = lows[1:]
		var cs []chg
		tot := nowin.total() - nowin.find(oldest).power
		if p := nowin.find(last).power; p > 1 {
			tot -= p - 1
			cs = append(cs, chg{last, 1})
		}
		cs = append(cs, chg{oldest, 0}, chg{addr(next), capM - tot})
		lows = append(lows, addr(next))
		next++
		if k := nowin.classify(cs); len(k) > 0 {
			t.Fatalf("harness error: directed change set invalid: %v", k)
		}
		if err := vs.UpdateWithChangeSet(toValidators(cs)); err != nil {
			t.Fatalf("harness error: valid change set rejected in the directed overflow scenario: %v", err)
		}
		nowin.update(cs)
		spec.update(cs)
		specClipped = specClipped || spec.clipped
		if compare(vs, nowin, false) != nil {
			break // not the D3 behaviour any more (D3 repaired, or something else): nothing to reproduce here
		}
		// one round on copies
		c, m := cloneSet(vs), nowin.clone()
		_, before := c.GetByAddress(h)
		c.IncrementProposerPriority(1)
		m.increment(1)
		_, after := c.GetByAddress(h)
		if d := compare(c, m, true); d != nil && m.clipped && before.ProposerPriority > 0 && after.ProposerPriority < 0 {
			reproduced, atStep = true, step
			detail = fmt.Sprintf("after %d change sets %s has priority %d; one round later %d (wrapped); the clipping specification gives %d and proposer %s, the implementation elects %s",
				step, "v0'", before.ProposerPriority, after.ProposerPriority, m.find(h).prio, m.proposer.Hex()[:10], c.GetProposer().Address.Hex()[:10])
		}
	}
	t.Logf("overflow reproduced=%v at change set %d; %s; the specification with the window ever clipped: %v", reproduced, atStep, detail, specClipped)
	if specClipped {
		t.Fatalf("harness error: the specification model with the window had to clip in the directed scenario")
	}
	ev.KnownReproduced(keyOverflow, reproduced)
	ev.Case(true, "directed:overflow", "directed")
}

func directedChangeSets(t *testing.T) {
	a, b, c, d := pool[0], pool[1], pool[2], pool[3]
	type tc struct {
		name    string
		initial []chg
		pre     int64 // rounds before the change set
		changes []chg
		valid   bool
	}
	cases := []tc{
		{"swap-whole-set-at-cap", []chg{{a, capM}}, 1, []chg{{a, 0}, {b, capM}}, true},
		{"fill-to-cap-exactly", []chg{{a, 1}, {b, 2}}, 2, []chg{{c, capM - 3}}, true},
		{"one-above-cap", []chg{{a, 1}, {b, 2}}, 2, []chg{{c, capM - 2}}, false},
		{"two-entries-sum-above-cap", []chg{{a, 1}}, 1, []chg{{b, capM / 2}, {c, capM/2 + 1}}, false},
		{"many-caps-int64-wrap", []chg{{a, 1}}, 1, []chg{{b, capM}, {c, capM}, {d, capM}, {pool[4], capM}, {pool[5], capM}, {pool[6], capM}, {pool[7], capM}, {pool[8], capM}}, false},
		{"removal-makes-room", []chg{{a, capM - 1}, {b, 1}}, 3, []chg{{a, 0}, {c, capM - 1}}, true},
		{"removal-not-enough-room", []chg{{a, capM - 1}, {b, 1}}, 3, []chg{{b, 0}, {c, 2}}, false},
		{"decrease-and-increase-balance", []chg{{a, capM - 10}, {b, 10}}, 1, []chg{{a, 10}, {b, capM - 10}}, true},
		{"entry-above-cap", []chg{{a, 1}}, 1, []chg{{b, capM + 1}}, false},
		{"entry-maxint64", []chg{{a, 1}}, 1, []chg{{a, math.MaxInt64}}, false},
		{"negative", []chg{{a, 5}, {b, 5}}, 1, []chg{{a, -1}}, false},
		{"negative-minint64", []chg{{a, 5}, {b, 5}}, 1, []chg{{c, math.MinInt64}}, false},
		{"duplicate-same", []chg{{a, 5}, {b, 5}}, 1, []chg{{c, 3}, {c, 3}}, false},
		{"duplicate-update-and-remove", []chg{{a, 5}, {b, 5}}, 1, []chg{{a, 7}, {b, 6}, {a, 0}}, false},
		{"remove-unknown", []chg{{a, 5}, {b, 5}}, 1, []chg{{c, 0}}, false},
		{"remove-unknown-after-valid-entries", []chg{{a, 5}, {b, 5}}, 1, []chg{{a, 9}, {d, 4}, {c, 0}}, false},
		{"remove-all", []chg{{a, 5}, {b, 5}}, 1, []chg{{a, 0}, {b, 0}}, false},
		{"remove-all-but-add-one", []chg{{a, 5}, {b, 5}}, 1, []chg{{a, 0}, {b, 0}, {c, 1}}, true},
		{"remove-last-single", []chg{{a, 5}}, 1, []chg{{a, 0}}, false},
		{"no-op-entry", []chg{{a, 5}, {b, 7}}, 2, []chg{{b, 7}}, true},
		{"newcomer-with-removal", []chg{{a, 5}, {b, 7}, {c, 9}}, 4, []chg{{c, 0}, {d, 100}}, true},
		{"dust-joins-huge", []chg{{a, 1e15}}, 2, []chg{{b, 1}}, true},
		{"huge-joins-dust", []chg{{a, 1}, {b, 1}, {c, 2}}, 2, []chg{{d, capM - 4}}, true},
	}
	for _, c := range cases {
		w := newWorld(t, c.initial)
		w.logf("directed:%s", c.name)
		if c.pre > 0 {
			w.inc(c.pre)
		}
		if got := len(w.cur().classify(c.changes)) == 0; got != c.valid {
			t.Fatalf("harness error: case %s: table says valid=%v, model says %v", c.name, c.valid, got)
		}
		w.update(c.changes)
		w.inc(1)
		w.inc(int64(len(w.cur().vals)) + 2)
		w.protoStep()
		w.copyStep()
		w.inc(3)
		ev.Case(true, fmt.Sprintf("directed:%s", c.name), "directed")
	}
}
