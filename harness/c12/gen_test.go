package c12

import (
	"math"

	"pgregory.net/rapid"

	"github.com/kardiachain/go-kardia/lib/common"
)

const maxMembers = 10 // the pool has 12 addresses: there is always an address that is not a member

var poolIdx = func() []int {
	out := make([]int, poolSize)
	for i := range out {
		out[i] = i
	}
	return out
}()

// genPower draws a positive power not above room (room >= 1).
func genPower(t *rapid.T, room int64) int64 {
	var p int64
	switch c := rapid.IntRange(0, 11).Draw(t, "pclass"); {
	case c <= 5:
		p = rapid.Int64Range(1, 10).Draw(t, "p")
	case c <= 7:
		p = rapid.Int64Range(11, 2000).Draw(t, "p")
	case c == 8:
		p = rapid.Int64Range(1, 9).Draw(t, "d")
		for e := rapid.IntRange(6, 17).Draw(t, "e"); e > 0; e-- {
			p *= 10
		}
	case c == 9:
		p = rapid.SampledFrom([]int64{capM / 4, capM / 3, capM / 2, capM/2 + 1, capM - 1}).Draw(t, "p")
	default:
		p = room - rapid.Int64Range(0, 2).Draw(t, "below") // fill the cap (nearly) exactly
	}
	if p > room {
		p = room
	}
	if p < 1 {
		p = 1
	}
	return p
}

func genInitial(t *rapid.T) ([]chg, string) {
	perm := rapid.Permutation(poolIdx).Draw(t, "addrs")
	shape := rapid.SampledFrom([]string{"small", "small", "small", "mixed", "cap-split", "huge+dust"}).Draw(t, "shape")
	var out []chg
	switch shape {
	case "small":
		n := rapid.IntRange(1, 8).Draw(t, "n")
		for i := 0; i < n; i++ {
			out = append(out, chg{pool[perm[i]], rapid.Int64Range(1, 10).Draw(t, "p")})
		}
	case "mixed":
		n := rapid.IntRange(1, 8).Draw(t, "n")
		room := capM
		for i := 0; i < n; i++ {
			p := genPower(t, room-int64(n-1-i)) // leave at least 1 for each of the others
			room -= p
			out = append(out, chg{pool[perm[i]], p})
		}
	case "cap-split":
		n := rapid.IntRange(2, 3).Draw(t, "n")
		left := capM - rapid.Int64Range(0, 1).Draw(t, "slack")
		for i := 0; i < n-1; i++ {
			p := left/int64(n-i) + rapid.Int64Range(-1000, 1000).Draw(t, "jit")
			out = append(out, chg{pool[perm[i]], p})
			left -= p
		}
		out = append(out, chg{pool[perm[n-1]], left})
	default: // one huge + dust
		nd := rapid.IntRange(1, 5).Draw(t, "ndust")
		dust := int64(0)
		for i := 0; i < nd; i++ {
			p := rapid.Int64Range(1, 3).Draw(t, "dust")
			dust += p
			out = append(out, chg{pool[perm[i]], p})
		}
		huge := rapid.SampledFrom([]int64{1e9, 1e12, 1e15, capM / 2, capM - dust}).Draw(t, "huge")
		out = append(out, chg{pool[perm[nd]], huge})
		// the huge one is not always first in the list
		if rapid.Bool().Draw(t, "hugefirst") {
			out[0], out[nd] = out[nd], out[0]
		}
	}
	return out, shape
}

type csBuilder struct {
	m         *model
	used      map[common.Address]bool
	projected int64 // total after the entries chosen so far
	remaining int   // members after the entries chosen so far
	out       []chg
}

func newBuilder(m *model) *csBuilder {
	return &csBuilder{m: m, used: map[common.Address]bool{}, projected: m.total(), remaining: len(m.vals)}
}

func (b *csBuilder) freeMembers() []*mval {
	var out []*mval
	for _, v := range b.m.vals {
		if !b.used[v.addr] {
			out = append(out, v)
		}
	}
	return out
}

func (b *csBuilder) freeOutsiders() []common.Address {
	var out []common.Address
	for _, a := range pool {
		if !b.used[a] && b.m.find(a) == nil {
			out = append(out, a)
		}
	}
	return out
}

func (b *csBuilder) add(t *rapid.T) bool {
	outs := b.freeOutsiders()
	room := capM - b.projected
	if len(outs) == 0 || room < 1 || b.remaining >= maxMembers {
		return false
	}
	a := rapid.SampledFrom(outs).Draw(t, "newaddr")
	p := genPower(t, room)
	b.used[a] = true
	b.projected += p
	b.remaining++
	b.out = append(b.out, chg{a, p})
	return true
}

func (b *csBuilder) change(t *rapid.T) bool {
	ms := b.freeMembers()
	if len(ms) == 0 {
		return false
	}
	v := ms[rapid.IntRange(0, len(ms)-1).Draw(t, "member")]
	room := capM - (b.projected - v.power)
	var p int64
	switch rapid.IntRange(0, 6).Draw(t, "how") {
	case 0:
		p = v.power // same power: a no-op entry is legal
	case 1:
		p = 1
	case 2:
		f := rapid.SampledFrom([]int64{2, 3, 10, 1000, 1000000}).Draw(t, "times")
		if v.power > math.MaxInt64/f {
			p = room
		} else {
			p = v.power * f
		}
	case 3:
		p = v.power / rapid.SampledFrom([]int64{2, 3, 10, 1000, 1000000}).Draw(t, "div")
	case 4:
		p = v.power + rapid.Int64Range(-3, 3).Draw(t, "delta")
	default:
		p = genPower(t, room)
	}
	if p > room {
		p = room
	}
	if p < 1 {
		p = 1
	}
	b.used[v.addr] = true
	b.projected += p - v.power
	b.out = append(b.out, chg{v.addr, p})
	return true
}

func (b *csBuilder) remove(t *rapid.T) bool {
	ms := b.freeMembers()
	if len(ms) == 0 || b.remaining <= 1 {
		return false
	}
	v := ms[rapid.IntRange(0, len(ms)-1).Draw(t, "member")]
	b.used[v.addr] = true
	b.projected -= v.power
	b.remaining--
	b.out = append(b.out, chg{v.addr, 0})
	return true
}

func (b *csBuilder) entries(t *rapid.T, n int) {
	for e := 0; e < n; e++ {
		k := rapid.IntRange(0, 9).Draw(t, "entry")
		ok := false
		switch {
		case k <= 3:
			ok = b.add(t)
		case k <= 7:
			ok = b.change(t)
		default:
			ok = b.remove(t)
		}
		if !ok && !b.change(t) {
			b.add(t)
		}
	}
}

func shuffle(t *rapid.T, cs []chg) []chg {
	if len(cs) < 2 {
		return cs
	}
	idx := make([]int, len(cs))
	for i := range idx {
		idx[i] = i
	}
	return permute(cs, rapid.Permutation(idx).Draw(t, "order"))
}

// genValidChanges builds, by construction, a change set the property wants accepted.
func genValidChanges(t *rapid.T, m *model) []chg {
	b := newBuilder(m)
	switch s := rapid.IntRange(0, 24).Draw(t, "special"); {
	case s == 0 && len(b.freeOutsiders()) > 0:
		// replace the whole set by one newcomer holding the whole cap: the total after the additions and before
		// the removals is above the cap, the final total is not
		for _, v := range m.vals {
			b.out = append(b.out, chg{v.addr, 0})
		}
		b.out = append(b.out, chg{b.freeOutsiders()[0], capM})
	case s == 1:
		// everybody down to a dust power
		for _, v := range m.vals {
			b.out = append(b.out, chg{v.addr, rapid.Int64Range(1, 3).Draw(t, "dust")})
		}
	case s == 2 && len(m.vals) >= 2:
		// remove the most powerful member
		b.out = append(b.out, chg{m.vals[0].addr, 0})
	case s == 3 && len(b.freeOutsiders()) > 0 && len(m.vals) < maxMembers && m.total() < capM:
		// one newcomer far more powerful than the set
		room := capM - m.total()
		p := rapid.SampledFrom([]int64{1e9, 1e12, 1e15, capM / 2, room}).Draw(t, "huge")
		if p > room {
			p = room
		}
		b.out = append(b.out, chg{b.freeOutsiders()[0], p})
	default:
		b.entries(t, rapid.IntRange(1, 4).Draw(t, "nentries"))
	}
	return shuffle(t, b.out)
}

// genInvalidChanges builds a change set with (at least) one of the defects the property lists.
func genInvalidChanges(t *rapid.T, m *model) []chg {
	b := newBuilder(m)
	b.entries(t, rapid.IntRange(0, 3).Draw(t, "nbase"))
	kind := rapid.SampledFrom([]string{"duplicate", "negative", "power-above-cap", "remove-unknown", "empties-set", "total-above-cap", "total-above-cap"}).Draw(t, "invalid")
	switch kind {
	case "duplicate":
		if len(b.out) == 0 {
			b.entries(t, 1)
		}
		if len(b.out) == 0 {
			return []chg{{pool[0], -1}}
		}
		c := b.out[rapid.IntRange(0, len(b.out)-1).Draw(t, "dupof")]
		p := c.power
		switch rapid.IntRange(0, 2).Draw(t, "duppower") {
		case 1:
			p = 0
		case 2:
			p = rapid.Int64Range(1, 10).Draw(t, "p")
		}
		b.out = append(b.out, chg{c.addr, p})
	case "negative":
		a := pool[rapid.IntRange(0, poolSize-1).Draw(t, "addr")]
		if b.used[a] {
			// keep the change set free of duplicates: replace the entry
			for i := range b.out {
				if b.out[i].addr == a {
					b.out = append(b.out[:i:i], b.out[i+1:]...)
					break
				}
			}
		}
		b.out = append(b.out, chg{a, rapid.SampledFrom([]int64{-1, -10, -capM, math.MinInt64}).Draw(t, "neg")})
	case "power-above-cap":
		var a common.Address
		if outs := b.freeOutsiders(); len(outs) > 0 && rapid.Bool().Draw(t, "outsider") {
			a = outs[0]
		} else if ms := b.freeMembers(); len(ms) > 0 {
			a = ms[0].addr
		} else if outs := b.freeOutsiders(); len(outs) > 0 {
			a = outs[0]
		} else {
			return []chg{{pool[0], math.MaxInt64}, {pool[0], 1}}
		}
		b.out = append(b.out, chg{a, rapid.SampledFrom([]int64{capM + 1, 2 * capM, math.MaxInt64}).Draw(t, "above")})
	case "remove-unknown":
		outs := b.freeOutsiders()
		if len(outs) == 0 {
			return []chg{{pool[0], -1}}
		}
		b.out = append(b.out, chg{outs[rapid.IntRange(0, len(outs)-1).Draw(t, "unknown")], 0})
	case "empties-set":
		b.out = nil
		for _, v := range m.vals {
			b.out = append(b.out, chg{v.addr, 0})
		}
	default: // total above the cap, every single entry at or below it
		room := capM - b.projected
		outs := b.freeOutsiders()
		ms := b.freeMembers()
		switch v := rapid.IntRange(0, 3).Draw(t, "variant"); {
		case v == 0 && len(outs) > 0:
			// one newcomer, just (or far) too much
			p := room + rapid.SampledFrom([]int64{1, 2, 1000}).Draw(t, "over")
			if rapid.IntRange(0, 3).Draw(t, "max") == 0 || p > capM {
				p = capM
			}
			b.out = append(b.out, chg{outs[0], p})
		case v == 1 && len(outs) >= 2:
			// several entries, each far below the cap, whose sum is above (and whose int64 sum may wrap)
			b.out = append(b.out, chg{outs[0], capM}, chg{outs[1], capM})
			for i := 2; i < len(outs) && i < 9; i++ {
				b.out = append(b.out, chg{outs[i], capM})
			}
		case v == 2 && len(ms) > 0:
			// an existing member grows too much
			p := ms[0].power + room + 1
			if p > capM {
				p = capM
			}
			b.out = append(b.out, chg{ms[0].addr, p})
		default:
			// a removal in the same change set does not make enough room
			if len(ms) >= 2 && len(outs) > 0 && b.remaining > 1 {
				x := ms[len(ms)-1]
				b.out = append(b.out, chg{x.addr, 0})
				p := room + x.power + 1
				if p > capM {
					p = capM
				}
				b.out = append(b.out, chg{outs[0], p})
			} else if len(outs) > 0 {
				b.out = append(b.out, chg{outs[0], capM})
			} else if len(ms) > 0 {
				b.out = append(b.out, chg{ms[0].addr, capM})
			} else {
				b.out = append(b.out, chg{pool[0], -1})
			}
		}
	}
	cs := shuffle(t, b.out)
	if len(m.classify(cs)) == 0 {
		// the construction happened to be harmless (e.g. plenty of room): make it definitely invalid
		cs = append(cs, cs[0])
	}
	return cs
}
