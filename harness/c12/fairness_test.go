package c12

// Fairness consequences the property draws from the specification: "over time each validator proposes in
// proportion to its power and none is starved after a set change".
//
// Bounds (derived from the window, for a static set advanced by consecutive IncrementProposerPriority(1) calls, over
// a stretch of calls in which the window step divides at most in the first call):
//   after window+centre every priority lies in [-(2T+1), 2T+1] and the priorities sum to s in [0, n-1]; rounds keep
//   the sum; the proposer's priority after paying is > -T; so every priority stays >= L = -(2T+1) and, by the sum,
//   <= U = (n-1)(2T+2).
//   proportion:  c_i*T = R*p_i + a_i(start) - a_i(end)   =>  |c_i*T - R*p_i| <= U - L < 2n(T+1)
//   starvation:  a validator that has not proposed for g consecutive calls satisfies
//                (g-1)*p_i <= ((2n+1)T + 2n - 1)/2       =>  g <= 1 + (2n+1)(T+1)/(2*p_i)
// Both are checked (a) on the specification model itself — a failure there is a harness error, never a violation —
// and (b) on the implementation while it still equals the specification. Once D3 has shown in a history a miss is a
// consequence of D3 and only counted.

import (
	"fmt"
	"math/big"
	"testing"

	"pgregory.net/rapid"

	"github.com/kardiachain/go-kardia/lib/common"

	"verifharness/internal/ev"
)

type fairTracker struct {
	members []mval
	n, T    int64
	bound   map[common.Address]int64
	count   map[common.Address]int64
	last    map[common.Address]int64
	ws, c   int64
	maxDev  int64 // max over closed stretches of ceil(|c_i*T - R*p_i| / T)
}

func newFairTracker(m *model) *fairTracker {
	f := &fairTracker{n: int64(len(m.vals)), T: m.total(), bound: map[common.Address]int64{}, count: map[common.Address]int64{}, last: map[common.Address]int64{}}
	for _, v := range m.vals {
		f.members = append(f.members, *v)
		// 3 + ceil((2n+1)(T+1) / (2 p))
		num := new(big.Int).Mul(big.NewInt(2*f.n+1), new(big.Int).Add(big.NewInt(f.T), big.NewInt(1)))
		den := big.NewInt(2 * v.power)
		q, r := new(big.Int).QuoRem(num, den, new(big.Int))
		if r.Sign() != 0 {
			q.Add(q, big.NewInt(1))
		}
		q.Add(q, big.NewInt(3))
		if q.IsInt64() && q.Int64() < 1<<40 {
			f.bound[v.addr] = q.Int64()
		} else {
			f.bound[v.addr] = 1 << 40
		}
	}
	return f
}

// closeStretch checks proportionality over calls ws+1..end; it returns a description of the worst offender or "".
func (f *fairTracker) closeStretch(end int64) string {
	R := end - f.ws
	bad := ""
	if R > 0 {
		lim := new(big.Int).Mul(big.NewInt(2*f.n), new(big.Int).Add(big.NewInt(f.T), big.NewInt(1)))
		for _, v := range f.members {
			d := new(big.Int).Mul(big.NewInt(f.count[v.addr]), big.NewInt(f.T))
			d.Sub(d, new(big.Int).Mul(big.NewInt(R), big.NewInt(v.power)))
			d.Abs(d)
			if d.Cmp(lim) > 0 && bad == "" {
				bad = fmt.Sprintf("%s (power %d of %d) proposed %d times in %d consecutive rounds of a static set of %d", name(v.addr), v.power, f.T, f.count[v.addr], R, f.n)
			}
			dev := new(big.Int).Add(d, big.NewInt(f.T-1))
			dev.Quo(dev, big.NewInt(f.T))
			if dev.IsInt64() && dev.Int64() > f.maxDev {
				f.maxDev = dev.Int64()
			}
		}
	}
	f.ws = end
	for _, v := range f.members {
		f.count[v.addr] = 0
		f.last[v.addr] = end
	}
	return bad
}

// call records one IncrementProposerPriority(1) call. It returns (disproportion, starvation) descriptions or "".
func (f *fairTracker) call(proposer common.Address, windowFired bool) (string, string) {
	f.c++
	disp := ""
	if windowFired && f.c > f.ws+1 {
		disp = f.closeStretch(f.c - 1)
	}
	f.count[proposer]++
	f.last[proposer] = f.c
	starved := ""
	for _, v := range f.members {
		if g := f.c - f.last[v.addr]; g > f.bound[v.addr] && starved == "" {
			starved = fmt.Sprintf("%s (power %d of %d, set of %d) has not proposed for %d consecutive rounds (bound %d)", name(v.addr), v.power, f.T, f.n, g, f.bound[v.addr])
		}
	}
	return disp, starved
}

func devClass(prefix string, d int64) string {
	switch {
	case d <= 1:
		return prefix + "<=1"
	case d <= 2:
		return prefix + "<=2"
	case d <= 3:
		return prefix + "<=3"
	default:
		return prefix + ">3"
	}
}

func TestFairness(t *testing.T) {
	maxRounds := ev.Scale("ROUNDS", 240)
	rapid.Check(t, func(t *rapid.T) {
		initial, shape := genInitial(t)
		w := newWorld(t, initial)
		w.class("init-" + shape)
		scenario := rapid.SampledFrom([]string{"generic", "huge-in-out", "huge-in-out", "power-spike", "newcomer"}).Draw(t, "scenario")
		w.class("scenario-" + scenario)
		few := func() {
			for r := rapid.IntRange(0, 4).Draw(t, "between"); r > 0; r-- {
				w.inc(1)
			}
		}
		freeOutsider := func() (common.Address, bool) {
			b := newBuilder(w.cur())
			outs := b.freeOutsiders()
			if len(outs) == 0 || len(w.cur().vals) >= maxMembers {
				return common.Address{}, false
			}
			return outs[rapid.IntRange(0, len(outs)-1).Draw(t, "outsider")], true
		}
		switch scenario {
		case "huge-in-out":
			// a validator far more powerful than the rest joins, a few rounds pass (somebody pays the huge total),
			// then it leaves or shrinks: exactly where the 2*total window has to pull the priorities back
			a, ok := freeOutsider()
			room := capM - w.cur().total()
			if ok && room >= 1 {
				p := rapid.SampledFrom([]int64{1e6, 1e9, 1e12, 1e15, capM / 2, room}).Draw(t, "huge")
				if p > room {
					p = room
				}
				w.update([]chg{{a, p}})
				for r := rapid.IntRange(1, 4).Draw(t, "rounds"); r > 0; r-- {
					w.inc(1)
				}
				if rapid.Bool().Draw(t, "leave") {
					w.update([]chg{{a, 0}})
				} else {
					w.update([]chg{{a, rapid.Int64Range(1, 10).Draw(t, "shrunk")}})
				}
			}
		case "power-spike":
			m := w.cur()
			v := m.vals[rapid.IntRange(0, len(m.vals)-1).Draw(t, "who")]
			old := v.power
			room := capM - (m.total() - old)
			p := rapid.SampledFrom([]int64{1000, 1e6, 1e9, 1e12, 1e15, room}).Draw(t, "spike")
			if p > room {
				p = room
			}
			if p < 1 {
				p = 1
			}
			w.update([]chg{{v.addr, p}})
			for r := rapid.IntRange(1, 4).Draw(t, "rounds"); r > 0; r-- {
				w.inc(1)
			}
			w.update([]chg{{v.addr, old}})
		case "newcomer":
			few()
			if a, ok := freeOutsider(); ok && w.cur().total() < capM {
				room := capM - w.cur().total()
				w.update([]chg{{a, genPower(t, room)}})
			}
		default:
			for k := rapid.IntRange(1, 3).Draw(t, "nchanges"); k > 0; k-- {
				few()
				w.update(genValidChanges(t, w.cur()))
			}
		}
		// static phase: consecutive single rounds, as the chain advances NextValidators once per block
		R := rapid.IntRange(20, maxRounds).Draw(t, "R")
		w.logf("static%d", R)
		specTr := newFairTracker(w.spec)
		implTr := newFairTracker(w.cur())
		startedInSpec := w.mode == modeSpec
		for c := 0; c < R && !w.dead; c++ {
			ev.Guard(t, w.text, func() { w.vs.IncrementProposerPriority(1) })
			w.settle("increment", func(m *model) { m.increment(1) }, true, nil)
			w.noteRounds(1)
			if w.dead {
				break
			}
			// (a) the specification itself
			if d, s := specTr.call(w.spec.proposer, w.spec.fired); d != "" || s != "" {
				t.Fatalf("harness error: the fairness bound does not hold on the specification model: %s %s\n%s", d, s, w.text())
			}
			// (b) the implementation (its proposer equals the current model's: settle has just compared them)
			fired := w.mode == modeSpec && w.spec.fired
			d, s := implTr.call(w.cur().proposer, fired)
			if w.mode == modeSpec {
				if d != "" {
					ev.Violation(t, "fairness.disproportionate", w.text(), "%s", d)
				}
				if s != "" {
					ev.Violation(t, "fairness.starved", w.text(), "%s", s)
				}
			} else {
				if d != "" {
					w.class("d3-disproportion-observed")
				}
				if s != "" {
					w.class("d3-starvation-observed")
					if ev.WantSample("d3-starvation") {
						ev.Sample("d3-starvation", s+" <= "+w.text())
					}
					break // one observation is enough; the rest of the phase would only repeat it
				}
			}
		}
		if d := specTr.closeStretch(specTr.c); d != "" {
			t.Fatalf("harness error: the proportionality bound does not hold on the specification model: %s\n%s", d, w.text())
		}
		w.class(devClass("spec-model-deviation", specTr.maxDev))
		if d := implTr.closeStretch(implTr.c); d != "" {
			if w.mode == modeSpec {
				ev.Violation(t, "fairness.disproportionate", w.text(), "%s", d)
			} else {
				w.class("d3-disproportion-observed")
			}
		}
		if w.mode == modeSpec {
			w.class(devClass("impl-deviation", implTr.maxDev))
			w.class("fairness-checked-on-implementation")
		} else if startedInSpec {
			w.class("d3-deviation-in-static-phase")
		}
		if w.mode == modeAlt {
			w.class("followed-no-window-model")
		}
		// non-trivial: a set change followed by at least n single rounds (the world tracks the same rule), and the
		// static phase is long enough for every member's fair share to be at least one proposal or for the
		// starvation bound of the most powerful member to be exceeded
		ev.Case(w.nontrivial && int64(R) >= 2*specTr.n, w.text(), w.classes()...)
		if ev.WantSample("fairness") {
			ev.Sample("fairness", w.text())
		}
	})
}
