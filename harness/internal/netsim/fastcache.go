package netsim

import (
	"reflect"
	"unsafe"

	"github.com/VictoriaMetrics/fastcache"
)

// fastcache keeps its 64 KB chunks outside the Go heap (mmap) and returns them to its process-wide free list only on
// Reset; a cache that is merely dropped keeps them forever. A node has two such caches (clean trie nodes, snapshot disk
// layer) and a long run builds thousands of nodes, so Close hands their chunks back. The fields are unexported; they
// are reached by reflection (a missing field is skipped: this is resource hygiene of the harness, not part of any
// oracle).

func field(v reflect.Value, name string) reflect.Value {
	for v.IsValid() && (v.Kind() == reflect.Ptr || v.Kind() == reflect.Interface) {
		if v.IsNil() {
			return reflect.Value{}
		}
		v = v.Elem()
	}
	if !v.IsValid() || v.Kind() != reflect.Struct {
		return reflect.Value{}
	}
	f := v.FieldByName(name)
	if !f.IsValid() || !f.CanAddr() {
		return reflect.Value{}
	}
	return reflect.NewAt(f.Type(), unsafe.Pointer(f.UnsafeAddr())).Elem()
}

func resetCache(f reflect.Value) {
	if !f.IsValid() || f.Kind() != reflect.Ptr || f.IsNil() {
		return
	}
	if c, ok := f.Interface().(*fastcache.Cache); ok {
		c.Reset()
	}
}

func releaseFastcaches(bc interface{}) {
	defer func() { recover() }()
	v := reflect.ValueOf(bc)
	resetCache(field(field(v, "triedb"), "cleans"))
	layers := field(field(v, "snaps"), "layers")
	if layers.IsValid() && layers.Kind() == reflect.Map {
		it := layers.MapRange()
		for it.Next() {
			// map values are not addressable: copy the interface value, then look inside the pointed-to layer
			resetCache(field(it.Value(), "cache"))
		}
	}
}
