// Package netsim is a deterministic multi-node simulator around the real
// consensus.ConsensusState. Each node is built the way mainchain/backend.go builds
// one (one shared key-value database per node, real block chain, real block
// executor, staking contract, evidence pool, tx pool); the harness owns the schedule:
// there is no receiveRoutine, no real timer and no reactor goroutine.
package netsim

import (
	"crypto/ecdsa"
	"fmt"
	"math/big"
	"sync"
	"time"

	"github.com/kardiachain/go-kardia/configs"
	"github.com/kardiachain/go-kardia/consensus"
	"github.com/kardiachain/go-kardia/kai/kaidb"
	"github.com/kardiachain/go-kardia/kai/kaidb/memorydb"
	"github.com/kardiachain/go-kardia/kai/state/cstate"
	"github.com/kardiachain/go-kardia/lib/common"
	"github.com/kardiachain/go-kardia/lib/crypto"
	"github.com/kardiachain/go-kardia/lib/log"
	"github.com/kardiachain/go-kardia/mainchain/blockchain"
	"github.com/kardiachain/go-kardia/mainchain/genesis"
	"github.com/kardiachain/go-kardia/mainchain/staking"
	"github.com/kardiachain/go-kardia/mainchain/tx_pool"
	"github.com/kardiachain/go-kardia/types"
	"github.com/kardiachain/go-kardia/types/evidence"
)

var quietOnce sync.Once

// Quiet silences the product's logging (it is very chatty and dominates run time otherwise).
func Quiet() {
	quietOnce.Do(func() { log.Root().SetHandler(log.DiscardHandler()) })
}

// Key returns the deterministic validator key #i.
func Key(i int) *ecdsa.PrivateKey {
	k, err := crypto.ToECDSA(crypto.Keccak256([]byte(fmt.Sprintf("verif-key-%d", i))))
	if err != nil {
		panic(err)
	}
	return k
}

var genesisMu sync.Mutex

// GenesisOpts customises MakeGenesisWith.
type GenesisOpts struct {
	Names        []string                 // validator names (default val<i>)
	SelfDelegate []string                 // self delegation in wei as decimal strings (default powers[i] * 1e24)
	Mutate       func(g *genesis.Genesis) // last-minute changes (consensus params …)
}

// MakeGenesis builds a genesis with len(powers) validators; powers[i] is validator i's self delegation in units of
// 1e6 KAI (voting power = self delegation / 1e10). Extra funded accounts: Key(100..100+extra-1).
func MakeGenesis(powers []int64, extra int) (*genesis.Genesis, []*ecdsa.PrivateKey) {
	return MakeGenesisWith(powers, extra, GenesisOpts{})
}

func MakeGenesisWith(powers []int64, extra int, o GenesisOpts) (*genesis.Genesis, []*ecdsa.PrivateKey) {
	genesisMu.Lock()
	defer genesisMu.Unlock()
	configs.AddDefaultContract()
	n := len(powers)
	keys := make([]*ecdsa.PrivateKey, n)
	accounts := map[string]*big.Int{}
	init, _ := new(big.Int).SetString("1000000000000000000000000000", 10)
	var vals []*genesis.GenesisValidator
	unit, _ := new(big.Int).SetString("1000000000000000000000000", 10) // 1e24 wei = 1e6 KAI => power 1e14 per unit
	for i := 0; i < n; i++ {
		keys[i] = Key(i)
		addr := crypto.PubkeyToAddress(keys[i].PublicKey)
		accounts[addr.Hex()] = init
		self := new(big.Int).Mul(unit, big.NewInt(powers[i])).String()
		if i < len(o.SelfDelegate) && o.SelfDelegate[i] != "" {
			self = o.SelfDelegate[i]
		}
		name := fmt.Sprintf("val%d", i)
		if i < len(o.Names) {
			name = o.Names[i]
		}
		vals = append(vals, &genesis.GenesisValidator{
			Name: name, Address: addr.Hex(),
			CommissionRate: "100000000000000000", MaxRate: "250000000000000000", MaxChangeRate: "50000000000000000",
			SelfDelegate: self, StartWithGenesis: true,
		})
	}
	for i := 0; i < extra; i++ {
		accounts[crypto.PubkeyToAddress(Key(100+i).PublicKey).Hex()] = init
	}
	contracts := make(map[string]string)
	for key, c := range configs.GetContracts() {
		configs.LoadGenesisContract(key, c.Address, c.ByteCode, c.ABI)
		if key != configs.StakingContractKey {
			contracts[c.Address] = c.ByteCode
		}
	}
	g := genesis.DefaulTestnetFullGenesisBlock(accounts, contracts)
	g.Validators = vals
	g.ChainID = "verif"
	g.Timestamp = time.Unix(1700000000, 0).UTC()
	if o.Mutate != nil {
		o.Mutate(g)
	}
	return g, keys
}

// Ticker is the harness-owned timeout ticker: it only records the pending timeout, with the same
// "a later height/round/step replaces an earlier one" rule as consensus/ticker.go.
type Ticker struct {
	last    consensus.VerifTimeoutInfo // last accepted schedule request (kept after firing, like the real routine)
	Pending bool
	c       chan consensus.VerifTimeoutInfo
	// OnStart, if set, runs when the consensus state starts its ticker: in ConsensusState.OnStart that is after the WAL
	// catch-up and immediately before the receive routine is launched.
	OnStart func()
	// Started: Start() was called. BeforeStart counts ScheduleTimeout calls made while the ticker was not started (the
	// product's ticker buffers only a few of those: nothing reads its channel before Start).
	Started     bool
	BeforeStart int
}

func NewTicker() *Ticker {
	return &Ticker{last: *consensus.EmptyTimeoutInfo(), c: make(chan consensus.VerifTimeoutInfo)}
}
func (m *Ticker) Start() error {
	m.Started = true
	if m.OnStart != nil {
		m.OnStart()
	}
	return nil
}
func (m *Ticker) Stop() error                             { return nil }
func (m *Ticker) Chan() <-chan consensus.VerifTimeoutInfo { return m.c }
func (m *Ticker) SetLogger(log.Logger)                    {}
func (m *Ticker) ScheduleTimeout(newti consensus.VerifTimeoutInfo) {
	if !m.Started {
		m.BeforeStart++
	}
	ti := m.last
	if newti.Height < ti.Height {
		return
	} else if newti.Height == ti.Height {
		if newti.Round < ti.Round {
			return
		} else if newti.Round == ti.Round {
			if ti.Step > 0 && newti.Step <= ti.Step {
				return
			}
		}
	}
	m.last = newti
	m.Pending = true
}

// Take returns the pending timeout and clears it.
func (m *Ticker) Take() (consensus.VerifTimeoutInfo, bool) {
	if !m.Pending {
		return consensus.VerifTimeoutInfo{}, false
	}
	m.Pending = false
	return m.last, true
}

// Peek returns the pending timeout without clearing it.
func (m *Ticker) Peek() (consensus.VerifTimeoutInfo, bool) { return m.last, m.Pending }

// SigRec is one signing request made by a node's ConsensusState.
type SigRec struct {
	Kind      string // proposal / prevote / precommit
	Height    uint64
	Round     uint32
	BlockID   types.BlockID
	POLRound  uint32
	Timestamp time.Time
}

// RecPV wraps a PrivValidator and reports every signing request before it is served.
type RecPV struct {
	types.PrivValidator
	OnSign func(SigRec)
}

// Node is one simulated node.
type Node struct {
	Index  int
	Key    *ecdsa.PrivateKey
	Addr   common.Address
	DB     kaidb.Database
	BC     *blockchain.BlockChain
	Store  cstate.Store
	EvPool *evidence.Pool
	TxPool *tx_pool.TxPool
	BOps   *blockchain.BlockOperations
	Exec   *cstate.BlockExecutor
	CS     *consensus.ConsensusState
	Tick   *Ticker
	PV     types.PrivValidator
	bus    *types.EventBus
}

// NodeOpts are the per-node knobs.
type NodeOpts struct {
	DB    kaidb.Database          // nil => fresh memorydb
	Cache *blockchain.CacheConfig // nil => product default
	PV    types.PrivValidator     // nil => DefaultPrivValidator(key)
	WAL   consensus.WAL           // nil => product default (nilWAL)
	// RootDir is the consensus config's root directory (the real WAL file lives in <RootDir>/cs.wal/wal).
	RootDir string
	// RealTicker keeps the product's timeout ticker (real timers) instead of the harness-owned one.
	RealTicker bool
}

// ArchiveCache is the "flush every block" cache configuration (config.NoPruning).
func ArchiveCache() *blockchain.CacheConfig {
	return &blockchain.CacheConfig{TrieCleanLimit: 16, TrieDirtyDisabled: true, SnapshotLimit: 0}
}

// TxPoolConfig used by simulated nodes (journal disabled: the default writes transactions.rlp into cwd).
func TxPoolConfig() tx_pool.TxPoolConfig {
	return tx_pool.TxPoolConfig{GlobalSlots: 64, GlobalQueue: 64, AccountSlots: 16, AccountQueue: 16, PriceLimit: 1, PriceBump: 10, Journal: ""}
}

// NewNode builds a node exactly as mainchain/backend.go does, minus p2p and RPC.
func NewNode(idx int, g *genesis.Genesis, key *ecdsa.PrivateKey, o NodeOpts) (*Node, error) {
	Quiet()
	logger := log.New()
	db := o.DB
	if db == nil {
		db = memorydb.New()
	}
	bc, err := blockchain.NewBlockChain(db, o.Cache, g)
	if err != nil {
		return nil, fmt.Errorf("NewBlockChain: %w", err)
	}
	stakingUtil, err := staking.NewSmcStakingUtil()
	if err != nil {
		return nil, err
	}
	store := cstate.NewStore(db)
	evPool, err := evidence.NewPool(store, db, bc)
	if err != nil {
		return nil, fmt.Errorf("evidence.NewPool: %w", err)
	}
	txPool := tx_pool.NewTxPool(TxPoolConfig(), bc.Config(), bc)
	bOper := blockchain.NewBlockOperations(logger, bc, txPool, evPool, stakingUtil)
	blockExec := cstate.NewBlockExecutor(store, logger, evPool, bOper)
	state, err := store.LoadStateFromDBOrGenesisDoc(g)
	if err != nil {
		return nil, fmt.Errorf("LoadStateFromDBOrGenesisDoc: %w", err)
	}
	ccfg := configs.TestConsensusConfig()
	ccfg.RootDir = o.RootDir
	cs := consensus.NewConsensusState(logger, ccfg, state, bOper, blockExec, evPool)
	pv := o.PV
	if pv == nil {
		pv = types.NewDefaultPrivValidator(key)
	}
	cs.SetPrivValidator(pv)
	eb := types.NewEventBus()
	eb.SetLogger(logger)
	if err := eb.Start(); err != nil {
		return nil, err
	}
	cs.SetEventBus(eb)
	tk := NewTicker()
	if !o.RealTicker {
		cs.VerifSetTicker(tk)
	}
	if o.WAL != nil {
		cs.VerifSetWAL(o.WAL)
	}
	return &Node{Index: idx, Key: key, Addr: crypto.PubkeyToAddress(key.PublicKey), DB: db, BC: bc, Store: store, EvPool: evPool,
		TxPool: txPool, BOps: bOper, Exec: blockExec, CS: cs, Tick: tk, PV: pv, bus: eb}, nil
}

// StartReal runs the product's ConsensusState.Start (WAL open / repair / catch-up, ticker, event switch, receive
// routine) and stops the service again, leaving the node in the state OnStart produced, to be driven by the harness.
// The own messages the catch-up has queued are taken out just before OnStart launches the receive routine (which
// would otherwise race Stop for them) and are put back, in order, once the routine has ended.
func (n *Node) StartReal() error {
	var held []consensus.VerifMsgInfo
	n.CS.VerifHookEvswStart(func() {
		for {
			mi, more := n.CS.VerifPopInternal()
			if !more {
				return
			}
			held = append(held, mi)
		}
	})
	if err := n.CS.Start(); err != nil {
		return err
	}
	n.CS.Stop()
	n.CS.VerifWaitDone()
	for _, mi := range held {
		n.CS.VerifPushInternal(mi)
	}
	return nil
}

// Close stops the node's background goroutines (event bus, tx pool loop, chain).
func (n *Node) Close() {
	if n.bus != nil {
		n.bus.Stop()
	}
	if n.TxPool != nil {
		n.TxPool.Stop()
	}
	if n.BC != nil {
		n.BC.Stop()
		releaseFastcaches(n.BC)
	}
}

// ValidatorIndex returns this node's index in the current validator set of its consensus state (-1 if none).
func (n *Node) ValidatorIndex() int {
	i, v := n.CS.Validators.GetByAddress(n.Addr)
	if v == nil {
		return -1
	}
	return int(i)
}
