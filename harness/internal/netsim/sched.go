package netsim

import (
	"crypto/ecdsa"
	"fmt"
	"io"
	"sort"
	"strings"
	"time"

	"github.com/gogo/protobuf/proto"

	"pgregory.net/rapid"

	"github.com/kardiachain/go-kardia/consensus"
	"github.com/kardiachain/go-kardia/lib/common"
	"github.com/kardiachain/go-kardia/lib/crypto"
	"github.com/kardiachain/go-kardia/mainchain/genesis"
	kproto "github.com/kardiachain/go-kardia/proto/kardiachain/types"
	"github.com/kardiachain/go-kardia/trie"
	"github.com/kardiachain/go-kardia/types"
)

// Cand is a candidate block known to the adversary for some height.
type Cand struct {
	Height  uint64
	Block   *types.Block
	Parts   *types.PartSet
	ID      types.BlockID
	Valid   bool   // built by a correct node's CreateProposalBlock with unmodified content
	Desc    string // how it was made (for traces): "honest", "byz:proposer=2,drop=1", "invalid:AppHash" …
	Name    string // c<height>.<n>, stable across runs (hashes are not: votes carry wall-clock timestamps)
	Invalid string // which validity rule the mutation breaks ("" for valid candidates)
}

// Sim is a network of correct nodes plus harness-driven Byzantine validators.
type Sim struct {
	*Net
	G       *genesis.Genesis
	Keys    []*ecdsa.PrivateKey
	Powers  []int64
	Byz     []int // genesis indices of Byzantine validators (no node runs for them)
	Correct []int
	Cands   map[uint64][]*Cand
	byID    map[string]*Cand
	// Sent remembers every message delivered, for replay/duplication actions.
	Sent []consensus.Message
	// Stats for generator health.
	Stat map[string]int
	// ByzVoteLog: every vote the adversary signed, keyed by validator/h/r/type -> set of block keys (equivocation detection for evidence checks)
	ByzVotes []*types.Vote
	// options
	AllowInvalidProposals bool
	SigHook               func(node int, s SigRec) // called at every signing request of a correct node

	// DeliverHook / OwnHook are called before a peer message / a node's own message is handed to the node.
	DeliverHook func(to, from int, msg consensus.Message)
	OwnHook     func(node int, msg consensus.Message)

	// RestartErr: the first failed Restart (the node could not be brought back); no further restarts are drawn then.
	RestartErr error

	optsFn   func(i int) NodeOpts
	ownProp  map[int]*types.Proposal // last own proposal per node (to assemble honest candidates from own parts)
	ownParts map[int]*types.PartSet
	lastLock map[int]string
	maxRound uint32
}

// onOwn sees every message a correct node emits to itself (proposal, parts, votes) before it is processed. Honest
// proposals are registered as candidates here, from the proposer's own part messages: inside one call the proposer can
// complete its block, prevote it, see a polka for another block and drop it again, so its round state is not a
// reliable place to learn about it afterwards.
func (s *Sim) onOwn(node int, msg consensus.Message) {
	switch x := msg.(type) {
	case *consensus.ProposalMessage:
		if s.ownProp == nil {
			s.ownProp, s.ownParts = map[int]*types.Proposal{}, map[int]*types.PartSet{}
		}
		s.ownProp[node] = x.Proposal
		s.ownParts[node] = types.NewPartSetFromHeader(x.Proposal.POLBlockID.PartsHeader)
	case *consensus.BlockPartMessage:
		if ps := s.ownParts[node]; ps != nil && x.Part != nil {
			ps.AddPart(x.Part)
			if ps.IsComplete() {
				id := s.ownProp[node].POLBlockID
				if s.byID[ExactKey(id)] == nil {
					if bz, err := io.ReadAll(ps.GetReader()); err == nil {
						pbb := new(kproto.Block)
						if proto.Unmarshal(bz, pbb) == nil {
							if blk, err := types.BlockFromProto(pbb, trie.NewStackTrie(nil)); err == nil {
								s.addCand(&Cand{Height: x.Height, Block: blk, Parts: ps, ID: id, Valid: true, Desc: fmt.Sprintf("honest(n%d)", node)})
							}
						}
					}
				}
				s.ownParts[node] = nil
			}
		}
	}
	if s.OwnHook != nil {
		s.OwnHook(node, msg)
	}
}

// ExactKey identifies a block id including the part-set total.
func ExactKey(b types.BlockID) string {
	return fmt.Sprintf("%x/%x/%d", b.Hash.Bytes(), b.PartsHeader.Hash.Bytes(), b.PartsHeader.Total)
}

// NewSim builds the network. byz lists the genesis indices driven by the adversary.
func NewSim(powers []int64, byz []int, opts func(i int) NodeOpts) (*Sim, error) {
	return NewSimWith(powers, byz, opts, GenesisOpts{})
}

// NewSimWith is NewSim with genesis options.
func NewSimWith(powers []int64, byz []int, opts func(i int) NodeOpts, gopts GenesisOpts) (*Sim, error) {
	g, keys := MakeGenesisWith(powers, 2, gopts)
	s := &Sim{Net: &Net{}, G: g, Keys: keys, Powers: powers, Byz: byz, Cands: map[uint64][]*Cand{}, byID: map[string]*Cand{}, Stat: map[string]int{}, optsFn: opts}
	isByz := map[int]bool{}
	for _, b := range byz {
		isByz[b] = true
	}
	s.Net.Nodes = make([]*Node, len(keys))
	s.Net.Down = make([]bool, len(keys))
	for i := range keys {
		if isByz[i] {
			s.Net.Down[i] = true
			continue
		}
		s.Correct = append(s.Correct, i)
		o := NodeOpts{}
		if opts != nil {
			o = opts(i)
		}
		idx := i
		inner := o.PV
		if inner == nil {
			inner = types.NewDefaultPrivValidator(keys[i])
		}
		o.PV = &RecPV{PrivValidator: inner, OnSign: func(r SigRec) {
			if s.SigHook != nil {
				s.SigHook(idx, r)
			}
		}}
		nd, err := NewNode(i, g, keys[i], o)
		if err != nil {
			s.Net.Close()
			return nil, err
		}
		s.Net.Nodes[i] = nd
	}
	s.Net.After = s.RegisterFromNodes
	s.Net.OnOwn = s.onOwn
	s.Net.OnDeliver = func(to, from int, msg consensus.Message) {
		if s.DeliverHook != nil {
			s.DeliverHook(to, from, msg)
		}
	}
	return s, nil
}

// EnableRestarts gives every correct node an in-memory consensus log and makes the primitives write to it the way
// receiveRoutine does, so that Restart can bring a node back through the product's own start-up path. Call it before
// Start.
func (s *Sim) EnableRestarts() {
	for _, i := range s.Correct {
		s.Nodes[i].CS.VerifSetWAL(NewMemWAL(nil))
	}
	s.WriteWAL = true
}

// Restart stops correct node i the way a node is shut down (cached state is flushed, the log is complete) and starts a
// new process on its database and log: node construction as in backend.go, then the product's ConsensusState.Start
// with its WAL catch-up. In-memory state that is not persisted (round state beyond what the log restores, peers' claims,
// the pending timeout, the transaction pool) is gone, as in a real restart.
func (s *Sim) Restart(i int) error {
	old := s.Nodes[i]
	if old == nil || s.down(i) {
		return nil
	}
	mw, ok := old.CS.VerifWAL().(*MemWAL)
	if !ok {
		return fmt.Errorf("node %d has no in-memory log (EnableRestarts not called)", i)
	}
	s.DrainOwn(i)
	img := mw.Image("all")
	old.Close()
	o := NodeOpts{}
	if s.optsFn != nil {
		o = s.optsFn(i)
	}
	o.DB = old.DB
	o.WAL = NewMemWALFrom(img, nil)
	inner := o.PV
	if inner == nil {
		inner = types.NewDefaultPrivValidator(s.Keys[i])
	}
	o.PV = &RecPV{PrivValidator: inner, OnSign: func(r SigRec) {
		if s.SigHook != nil {
			s.SigHook(i, r)
		}
	}}
	nn, err := NewNode(i, s.G, s.Keys[i], o)
	if err != nil {
		return fmt.Errorf("restart of node %d: %w", i, err)
	}
	if err := nn.StartReal(); err != nil {
		nn.Close()
		return fmt.Errorf("restart of node %d: ConsensusState.Start: %w", i, err)
	}
	s.Nodes[i] = nn
	prefix := fmt.Sprintf("%d<-", i)
	for k := range s.maj23Seen {
		if strings.HasPrefix(k, prefix) {
			delete(s.maj23Seen, k) // claims made to the old process died with it
		}
	}
	s.Stat["restart"]++
	s.tracef("restart n%d -> %s", i, Fingerprint(nn))
	s.DrainOwn(i)
	if s.After != nil {
		s.After()
	}
	return nil
}

// Addr returns the address of genesis validator i.
func (s *Sim) Addr(i int) common.Address { return crypto.PubkeyToAddress(s.Keys[i].PublicKey) }

// RegisterFromNodes records every complete proposal block a correct node currently holds as a candidate.
func (s *Sim) RegisterFromNodes() {
	for _, i := range s.Correct {
		if s.down(i) {
			continue
		}
		cs := s.Nodes[i].CS
		if cs.ProposalBlock != nil && cs.ProposalBlockParts != nil && cs.ProposalBlockParts.IsComplete() {
			id := types.BlockID{Hash: cs.ProposalBlock.Hash(), PartsHeader: cs.ProposalBlockParts.Header()}
			if s.byID[ExactKey(id)] == nil {
				s.addCand(&Cand{Height: cs.Height, Block: cs.ProposalBlock, Parts: cs.ProposalBlockParts, ID: id, Valid: true, Desc: fmt.Sprintf("honest(n%d)", i)})
			}
		}
	}
}

func (s *Sim) addCand(c *Cand) *Cand {
	c.Name = fmt.Sprintf("c%d.%d", c.Height, len(s.Cands[c.Height]))
	s.Cands[c.Height] = append(s.Cands[c.Height], c)
	s.byID[ExactKey(c.ID)] = c
	return c
}

// CandByID looks a candidate up by its exact id.
func (s *Sim) CandByID(id types.BlockID) *Cand { return s.byID[ExactKey(id)] }

// lastCommitOf returns the commit a proposer at node nd's height may use.
func lastCommitOf(nd *Node) *types.Commit {
	cs := nd.CS
	if cs.Height == cs.VerifState().InitialHeight {
		return types.NewCommit(0, 0, types.BlockID{}, nil)
	}
	if cs.LastCommit == nil || !cs.LastCommit.HasTwoThirdsMajority() {
		return nil
	}
	return cs.LastCommit.MakeCommit()
}

// InvalidKinds are the single-field mutations that make an otherwise valid block violate one of the validity rules
// the property lists (height, parent id, LastCommit, app hash, validator hashes, median time).
var InvalidKinds = []string{"Height", "LastBlockID", "AppHash", "ValidatorsHash", "NextValidatorsHash", "Time", "LastCommit.dropbelow23", "LastCommit.badsig", "Proposer.unknown", "LastCommit.onesigner", "LastCommit.misaligned"}

// MakeCand builds a block for node `via`'s current height through that node's own CreateProposalBlock, with
// the given proposer address and (for heights > initial) `drop` trailing non-absent commit signatures removed as long
// as +2/3 remains. invalid != "" applies one mutation from InvalidKinds and re-derives all hashes so that the block id
// is consistent.
func (s *Sim) MakeCand(via int, proposerGenesisIdx int, drop int, invalid string) *Cand {
	nd := s.Nodes[via]
	cs := nd.CS
	st := cs.VerifState()
	commit := lastCommitOf(nd)
	if commit == nil {
		return nil
	}
	desc := fmt.Sprintf("byz(via n%d,proposer=%d,drop=%d)", via, proposerGenesisIdx, drop)
	if drop > 0 && len(commit.Signatures) > 0 {
		// drop signatures from the end while +2/3 of LastValidators remains
		lv := st.LastValidators
		total := lv.TotalVotingPower()
		var have int64
		for i, sg := range commit.Signatures {
			if sg.ForBlock() {
				_, v := lv.GetByIndex(uint32(i))
				have += v.VotingPower
			}
		}
		for i := len(commit.Signatures) - 1; i >= 0 && drop > 0; i-- {
			if !commit.Signatures[i].ForBlock() {
				continue
			}
			_, v := lv.GetByIndex(uint32(i))
			if (have-v.VotingPower)*3 > total*2 {
				commit.Signatures[i] = types.NewCommitSigAbsent()
				have -= v.VotingPower
				drop--
			}
		}
	}
	block, parts := nd.BOps.CreateProposalBlock(cs.Height, st, s.Addr(proposerGenesisIdx), commit)
	if block == nil {
		return nil
	}
	c := &Cand{Height: cs.Height, Valid: true, Desc: desc}
	if invalid != "" {
		h := types.CopyHeader(block.Header())
		lc := types.CopyCommit(block.LastCommit())
		switch invalid {
		case "Height":
			h.Height++
		case "LastBlockID":
			h.LastBlockID.Hash = common.BytesToHash([]byte("not the parent"))
		case "AppHash":
			h.AppHash = common.BytesToHash([]byte("not the app hash"))
		case "ValidatorsHash":
			h.ValidatorsHash = common.BytesToHash([]byte("other validators"))
		case "NextValidatorsHash":
			h.NextValidatorsHash = common.BytesToHash([]byte("other next validators"))
		case "Time":
			h.Time = h.Time.Add(7 * time.Millisecond)
		case "LastCommit.dropbelow23":
			if len(lc.Signatures) == 0 {
				return nil
			}
			for i := range lc.Signatures {
				lc.Signatures[i] = types.NewCommitSigAbsent()
			}
			h.LastCommitHash = common.Hash{}
		case "LastCommit.badsig":
			ok := false
			for i := range lc.Signatures {
				if !lc.Signatures[i].Absent() && len(lc.Signatures[i].Signature) > 10 {
					sig := common.CopyBytes(lc.Signatures[i].Signature)
					sig[5] ^= 0x40
					lc.Signatures[i].Signature = sig
					ok = true
					break
				}
			}
			if !ok {
				return nil
			}
			h.LastCommitHash = common.Hash{}
		case "LastCommit.onesigner":
			// one validator's genuine precommit copied into every slot, under that validator's address; block time = that
			// precommit's time, which is the median of this commit however it is weighted
			var first *types.CommitSig
			for i := range lc.Signatures {
				if lc.Signatures[i].ForBlock() {
					c := lc.Signatures[i]
					first = &c
					break
				}
			}
			if first == nil || len(lc.Signatures) < 2 {
				return nil
			}
			sigs := make([]types.CommitSig, len(lc.Signatures))
			for i := range sigs {
				sigs[i] = *first
				sigs[i].Signature = common.CopyBytes(first.Signature)
			}
			lc = types.NewCommit(lc.Height, lc.Round, lc.BlockID, sigs)
			h.Time = first.Timestamp
			h.LastCommitHash = common.Hash{}
		case "LastCommit.misaligned":
			// genuine signatures, each with its signer's address, moved one slot on
			n := len(lc.Signatures)
			if n < 2 {
				return nil
			}
			sigs := make([]types.CommitSig, n)
			changed := false
			for i := range sigs {
				sigs[(i+1)%n] = lc.Signatures[i]
				if lc.Signatures[i].ValidatorAddress != lc.Signatures[(i+1)%n].ValidatorAddress {
					changed = true
				}
			}
			if !changed {
				return nil
			}
			lc = types.NewCommit(lc.Height, lc.Round, lc.BlockID, sigs)
			h.LastCommitHash = common.Hash{}
		case "Proposer.unknown":
			h.ProposerAddress = common.BytesToAddress([]byte("nobody"))
		default:
			panic("unknown invalid kind " + invalid)
		}
		block = types.NewBlock(h, block.Transactions(), lc, block.Evidence().Evidence, trie.NewStackTrie(nil))
		parts = block.MakePartSet(types.BlockPartSizeBytes)
		c.Valid = false
		c.Invalid = invalid
		c.Desc = desc + " invalid:" + invalid
	}
	c.Block, c.Parts = block, parts
	c.ID = types.BlockID{Hash: block.Hash(), PartsHeader: parts.Header()}
	if old := s.byID[ExactKey(c.ID)]; old != nil {
		return old
	}
	return s.addCand(c)
}

// SignVote makes a vote of genesis validator b as seen by the validator set of node `view` (index/address lookup).
func (s *Sim) SignVote(b int, view *Node, typ kproto.SignedMsgType, height uint64, round uint32, id types.BlockID) *types.Vote {
	addr := s.Addr(b)
	idx, val := view.CS.Validators.GetByAddress(addr)
	if val == nil {
		return nil
	}
	ts := time.Now().UTC()
	if c := s.CandByID(id); c != nil && !ts.After(c.Block.Time()) {
		ts = c.Block.Time().Add(time.Millisecond)
	}
	v := &types.Vote{ValidatorAddress: addr, ValidatorIndex: uint32(idx), Height: height, Round: round, Timestamp: ts, Type: typ, BlockID: id}
	pv := v.ToProto()
	if err := types.NewDefaultPrivValidator(s.Keys[b]).SignVote(s.G.ChainID, pv); err != nil {
		panic(err)
	}
	v.Signature = pv.Signature
	s.ByzVotes = append(s.ByzVotes, v)
	return v
}

// SignProposal makes a proposal by genesis validator b.
func (s *Sim) SignProposal(b int, height uint64, round uint32, polRound uint32, id types.BlockID) *types.Proposal {
	p := types.NewProposal(height, round, polRound, id)
	pp := p.ToProto()
	if err := types.NewDefaultPrivValidator(s.Keys[b]).SignProposal(s.G.ChainID, pp); err != nil {
		panic(err)
	}
	p.Signature = pp.Signature
	return p
}

func (s *Sim) genesisIndexOf(addr common.Address) int {
	for i := range s.Keys {
		if s.Addr(i) == addr {
			return i
		}
	}
	return -1
}

func (s *Sim) send(to, from int, m consensus.Message) {
	s.Sent = append(s.Sent, m)
	s.Deliver(to, from, m)
}

// upCorrect returns the correct nodes that are up.
func (s *Sim) upCorrect() []int {
	var out []int
	for _, i := range s.Correct {
		if !s.down(i) {
			out = append(out, i)
		}
	}
	return out
}

// StepOpts tune the adversarial step distribution.
type StepOpts struct {
	NoByz bool
}

// Step performs one drawn adversarial action. All randomness comes from t.
func (s *Sim) Step(t *rapid.T) {
	up := s.upCorrect()
	if len(up) == 0 {
		return
	}
	s.RegisterFromNodes()
	weights := []int{0, 0, 0, 1, 1, 2, 2, 3, 3} // gossip-one ×3, fixpoint ×2, timeout ×2, timeoutAll? see below
	_ = weights
	act := rapid.IntRange(0, 25).Draw(t, "act")
	switch {
	case act >= 24 && len(up) >= 4 && !s.byzHasTwoThirds() && rapid.IntRange(0, 2).Draw(t, "stale") == 0: // scripted stale-polka schedule (no Byzantine help needed)
		s.StalePolka(t, up)
	case act >= 24 && len(s.Byz) > 0 && !s.byzHasTwoThirds() && len(up) >= 2: // scripted lock-split attack on agreement
		if rapid.Bool().Draw(t, "twolocks") {
			s.TwoLocks(t, up)
		} else {
			s.SplitAttack(t, up)
		}
	case act >= 23 && s.byzHasTwoThirds(): // single-victim profile: scripted lock / round change / (un)lock sequence
		s.LockDance(t, up)
	case act >= 20: // scripted round with drawn visibility sets (makes lock / split states frequent)
		s.RoundMacro(t, up)
	case act <= 2: // partial gossip j -> i
		if len(up) < 2 {
			return
		}
		i := rapid.SampledFrom(up).Draw(t, "to")
		j := rapid.SampledFrom(up).Draw(t, "from")
		if i == j {
			s.DrainOwn(i)
			return
		}
		kind := rapid.SampledFrom([]string{"all", "all", "votes", "prevotes", "precommits", "proposal", "parts"}).Draw(t, "kind")
		off := filterMsgs(s.OffersOf(j, i), kind)
		if len(off) == 0 {
			return
		}
		k := rapid.IntRange(1, len(off)).Draw(t, "k")
		start := rapid.IntRange(0, len(off)-1).Draw(t, "start")
		s.tracef("gossip n%d<-n%d %s %d/%d from %d", i, j, kind, k, len(off), start)
		for x := 0; x < k; x++ {
			s.send(i, j, off[(start+x)%len(off)])
		}
		s.DrainOwn(i)
		s.Stat["gossip"]++
	case act <= 6: // one kind of message from everybody to a drawn subset (selective relay: only some nodes see a polka …)
		kind := rapid.SampledFrom([]string{"proposal", "proposal", "prevotes", "prevotes", "precommits", "precommits", "votes", "parts"}).Draw(t, "bkind")
		targets := drawSubset(t, up, "btg")
		s.tracef("relay %s to %v", kind, targets)
		for _, i := range targets {
			for _, j := range up {
				if i == j {
					continue
				}
				for _, m := range filterMsgs(s.OffersOf(j, i), kind) {
					s.send(i, j, m)
				}
			}
			s.DrainOwn(i)
		}
		s.Stat["relay-kind"]++
	case act <= 7: // fixpoint inside a drawn group
		grp := drawSubset(t, up, "grp")
		if len(grp) == 0 {
			return
		}
		s.tracef("fixpoint %v", grp)
		s.GossipToFixpoint(grp)
		s.Stat["fixpoint"]++
	case act <= 10: // fire one timeout
		var cand []int
		for _, i := range up {
			if s.Nodes[i].Tick.Pending {
				cand = append(cand, i)
			}
		}
		if len(cand) == 0 {
			return
		}
		i := rapid.SampledFrom(cand).Draw(t, "tn")
		s.FireTimeout(i)
		s.Stat["timeout"]++
	case act == 11: // fire timeouts of a whole group
		grp := drawSubset(t, up, "tgrp")
		s.tracef("timeouts %v", grp)
		for _, i := range grp {
			s.FireTimeout(i)
		}
		s.Stat["timeout-group"]++
	case act <= 15: // Byzantine votes
		s.byzVotes(t, up)
	case act <= 17: // proposal by a Byzantine proposer
		s.byzProposal(t, up)
	case act == 18: // replay / duplicate an old message to some node
		if len(s.Sent) == 0 {
			return
		}
		m := s.Sent[rapid.IntRange(0, len(s.Sent)-1).Draw(t, "old")]
		i := rapid.SampledFrom(up).Draw(t, "rto")
		s.tracef("replay %T to n%d", m, i)
		s.Deliver(i, -1, m)
		s.DrainOwn(i)
		s.Stat["replay"]++
	case act == 19 && s.WriteWAL && s.RestartErr == nil: // restart one correct node (only in sims with EnableRestarts)
		i := rapid.SampledFrom(up).Draw(t, "restart")
		if _, ok := s.Nodes[i].CS.VerifWAL().(*MemWAL); ok {
			s.RestartErr = s.Restart(i)
		}
	default: // drain own queues everywhere
		for _, i := range up {
			s.DrainOwn(i)
		}
	}
	s.RegisterFromNodes()
	s.observe()
}

// observe updates generator-health counters from the nodes' round states.
func (s *Sim) observe() {
	if s.lastLock == nil {
		s.lastLock = map[int]string{}
	}
	for _, i := range s.upCorrect() {
		cs := s.Nodes[i].CS
		cur := ""
		if cs.LockedBlock != nil {
			cur = fmt.Sprintf("%d/%d/%x", cs.Height, cs.LockedRound, cs.LockedBlock.Hash().Bytes()[:4])
		}
		prev := s.lastLock[i]
		if cur != prev {
			switch {
			case prev == "" && cur != "":
				s.Stat["ev:lock"]++
			case prev != "" && cur != "" && prev[:len(fmt.Sprintf("%d/", cs.Height))] == cur[:len(fmt.Sprintf("%d/", cs.Height))]:
				s.Stat["ev:relock"]++
			case prev != "" && cur == "" && len(prev) > 0 && prev[:len(fmt.Sprintf("%d/", cs.Height))] == fmt.Sprintf("%d/", cs.Height):
				s.Stat["ev:unlock-same-height"]++
			}
			s.lastLock[i] = cur
		}
		if cs.Round > s.maxRound {
			s.maxRound = cs.Round
		}
	}
}

// MaxRound is the highest round any correct node reached.
func (s *Sim) MaxRound() uint32 { return s.maxRound }

func filterMsgs(ms []consensus.Message, kind string) []consensus.Message {
	if kind == "all" {
		return ms
	}
	var out []consensus.Message
	for _, m := range ms {
		switch x := m.(type) {
		case *consensus.VoteMessage:
			if kind == "votes" || (kind == "prevotes" && x.Vote.Type == kproto.PrevoteType) || (kind == "precommits" && x.Vote.Type == kproto.PrecommitType) {
				out = append(out, m)
			}
		case *consensus.ProposalMessage:
			if kind == "proposal" {
				out = append(out, m)
			}
		case *consensus.BlockPartMessage:
			if kind == "parts" || kind == "proposal" {
				out = append(out, m)
			}
		}
	}
	return out
}

func drawSubset(t *rapid.T, from []int, label string) []int {
	if len(from) == 0 {
		return nil
	}
	mode := rapid.IntRange(0, 3).Draw(t, label+"mode")
	if mode == 0 {
		return append([]int{}, from...)
	}
	var out []int
	for _, x := range from {
		if rapid.Bool().Draw(t, label) {
			out = append(out, x)
		}
	}
	return out
}

// candidates for a height plus nil
func (s *Sim) drawBlockID(t *rapid.T, h uint64, label string) (types.BlockID, string) {
	cs := s.Cands[h]
	if len(cs) == 0 || rapid.IntRange(0, 3).Draw(t, label+"nil") == 0 {
		return types.BlockID{}, "nil"
	}
	c := cs[rapid.IntRange(0, len(cs)-1).Draw(t, label)]
	return c.ID, c.Name
}

func (s *Sim) byzVotes(t *rapid.T, up []int) {
	if len(s.Byz) == 0 {
		return
	}
	targets := drawSubset(t, up, "vt")
	if len(targets) == 0 {
		return
	}
	ref := s.Nodes[targets[0]]
	h := ref.CS.Height
	var who []int
	if rapid.Bool().Draw(t, "allbyz") {
		who = s.Byz
	} else {
		who = []int{rapid.SampledFrom(s.Byz).Draw(t, "b")}
	}
	typ := kproto.PrevoteType
	if rapid.IntRange(0, 2).Draw(t, "pc") == 0 {
		typ = kproto.PrecommitType
	}
	r := ref.CS.Round
	switch rapid.IntRange(0, 5).Draw(t, "rsel") {
	case 0:
		r++
	case 1:
		if r > 1 {
			r--
		}
	}
	id, name := s.drawBlockID(t, h, "vb")
	equiv := rapid.IntRange(0, 3).Draw(t, "equiv") == 0
	var id2 types.BlockID
	name2 := ""
	if equiv {
		id2, name2 = s.drawBlockID(t, h, "vb2")
	}
	s.tracef("byzvote who=%v type=%v h=%d r=%d id=%s targets=%v equiv=%v(%s)", who, typ, h, r, name, targets, equiv, name2)
	for _, b := range who {
		for k, i := range targets {
			nd := s.Nodes[i]
			if nd.CS.Height != h {
				continue
			}
			use := id
			if equiv && k%2 == 1 {
				use = id2
			}
			v := s.SignVote(b, nd, typ, h, r, use)
			if v == nil {
				continue
			}
			s.send(i, b, &consensus.VoteMessage{Vote: v})
			s.DrainOwn(i)
		}
	}
	s.Stat["byz-vote"]++
	if equiv && ExactKey(id) != ExactKey(id2) {
		s.Stat["byz-equivocation"]++
	}
}

func (s *Sim) byzProposal(t *rapid.T, up []int) {
	if len(s.Byz) == 0 {
		return
	}
	i := rapid.SampledFrom(up).Draw(t, "pt")
	nd := s.Nodes[i]
	cs := nd.CS
	prop := cs.Validators.GetProposer()
	if prop == nil {
		return
	}
	b := s.genesisIndexOf(prop.Address)
	isByz := false
	for _, x := range s.Byz {
		if x == b {
			isByz = true
		}
	}
	if !isByz {
		return
	}
	h, r := cs.Height, cs.Round
	// candidate: reuse or make a new one (possibly invalid)
	var c *Cand
	if s.AllowInvalidProposals && h > 1 && rapid.IntRange(0, 5).Draw(t, "stale") == 0 {
		// a block that was a perfectly good proposal at an EARLIER height (the nodes may have validated it then),
		// proposed again now with a correct signature for this height and round
		var olds []*Cand
		for oh := uint64(1); oh < h; oh++ {
			for _, oc := range s.Cands[oh] {
				if oc.Valid {
					olds = append(olds, oc)
				}
			}
		}
		if len(olds) > 0 {
			c = olds[rapid.IntRange(0, len(olds)-1).Draw(t, "stalec")]
			s.Stat["byz-proposal-stale"]++
		}
	}
	if c != nil {
		// chosen above
	} else if len(s.Cands[h]) > 0 && rapid.IntRange(0, 2).Draw(t, "reuse") == 0 {
		c = s.Cands[h][rapid.IntRange(0, len(s.Cands[h])-1).Draw(t, "pc")]
	} else {
		inv := ""
		if s.AllowInvalidProposals && rapid.IntRange(0, 2).Draw(t, "inv") == 0 {
			inv = rapid.SampledFrom(InvalidKinds).Draw(t, "invkind")
		}
		pi := rapid.IntRange(0, len(s.Keys)-1).Draw(t, "pprop")
		drop := rapid.IntRange(0, 2).Draw(t, "drop")
		c = s.MakeCand(i, pi, drop, inv)
		if c == nil {
			return
		}
	}
	polRound := uint32(0)
	if r > 1 && rapid.IntRange(0, 3).Draw(t, "pol") == 0 {
		polRound = uint32(rapid.IntRange(1, int(r)-1).Draw(t, "polr"))
	}
	targets := drawSubset(t, up, "ptg")
	partial := rapid.IntRange(0, 5).Draw(t, "partial") == 0
	s.tracef("byzproposal by=%d h=%d r=%d cand=%s(%s) pol=%d targets=%v partial=%v", b, h, r, c.Name, c.Desc, polRound, targets, partial)
	p := s.SignProposal(b, h, r, polRound, c.ID)
	for _, j := range targets {
		tn := s.Nodes[j]
		if tn.CS.Height != h {
			continue
		}
		s.send(j, b, &consensus.ProposalMessage{Proposal: p})
		total := int(c.Parts.Total())
		for k := 0; k < total; k++ {
			if partial && k == total-1 {
				break
			}
			s.send(j, b, &consensus.BlockPartMessage{Height: h, Round: r, Part: c.Parts.GetPart(k)})
		}
		s.DrainOwn(j)
	}
	s.Stat["byz-proposal"]++
	if !c.Valid || c.Height != h {
		s.Stat["byz-proposal-invalid"]++
	}
	if partial {
		s.Stat["byz-proposal-partial"]++
	}
}

// CommittedIDs returns, per height, the set of block hashes committed (stored) by up correct nodes.
func (s *Sim) CommittedIDs() map[uint64]map[string][]int {
	out := map[uint64]map[string][]int{}
	for _, i := range s.Correct {
		if s.Nodes[i] == nil {
			continue
		}
		nd := s.Nodes[i]
		top := nd.BOps.Height()
		for h := uint64(1); h <= top; h++ {
			b := nd.BOps.LoadBlock(h)
			if b == nil {
				continue
			}
			k := b.Hash().Hex()
			if out[h] == nil {
				out[h] = map[string][]int{}
			}
			out[h][k] = append(out[h][k], i)
		}
	}
	return out
}

// AgreementViolation returns a description of the first height at which correct nodes stored different blocks.
func (s *Sim) AgreementViolation() string {
	ids := s.CommittedIDs()
	var hs []uint64
	for h := range ids {
		hs = append(hs, h)
	}
	sort.Slice(hs, func(a, b int) bool { return hs[a] < hs[b] })
	for _, h := range hs {
		if len(ids[h]) > 1 {
			return fmt.Sprintf("height %d: correct nodes committed different blocks: %v", h, ids[h])
		}
	}
	return ""
}

func (s *Sim) relayKind(kind string, targets, from []int) {
	for _, i := range targets {
		for _, j := range from {
			if i == j || s.down(j) {
				continue
			}
			for _, m := range filterMsgs(s.OffersOf(j, i), kind) {
				s.send(i, j, m)
			}
		}
		s.DrainOwn(i)
	}
}

func (s *Sim) fireIfStep(nodes []int, steps ...string) {
	for _, i := range nodes {
		ti, ok := s.Nodes[i].Tick.Peek()
		if !ok {
			continue
		}
		for _, st := range steps {
			if ti.Step.String() == st {
				s.FireTimeout(i)
				break
			}
		}
	}
}

// RoundMacro drives one consensus round at the lowest height among the up correct nodes, choosing for every
// message kind WHO gets to see it: proposal to P, prevotes to Q, precommits to R; everybody else runs into the
// corresponding timeout. Byzantine validators add drawn votes to drawn subsets. Every sub-step is conditional on the
// nodes' actual state, so the macro is safe in any state.
func (s *Sim) RoundMacro(t *rapid.T, up []int) {
	s.tracef("roundmacro begin")
	s.fireIfStep(up, "RoundStepNewHeight", "RoundStepNewRound")
	s.RegisterFromNodes()
	P := drawBiased(t, up, "P", 60, 10)
	s.tracef(" proposal to %v", P)
	s.relayKind("proposal", P, up)
	if rapid.IntRange(0, 2).Draw(t, "mbyzprop") == 0 {
		s.byzProposal(t, up)
	}
	s.fireIfStep(up, "RoundStepPropose")
	s.RegisterFromNodes()
	Q := drawBiased(t, up, "Q", 25, 45)
	if rapid.Bool().Draw(t, "mbyzpv") {
		s.byzVotes(t, up)
	}
	s.tracef(" prevotes to %v", Q)
	s.relayKind("prevotes", Q, up)
	if rapid.Bool().Draw(t, "partialpv") {
		// the others see some prevotes too (perhaps 2/3-any without a polka)
		for _, i := range up {
			j := rapid.SampledFrom(up).Draw(t, "pvfrom")
			s.relayKind("prevotes", []int{i}, []int{j})
		}
	}
	s.fireIfStep(up, "RoundStepPrevoteWait")
	R := drawBiased(t, up, "R", 25, 25)
	if rapid.Bool().Draw(t, "mbyzpc") {
		s.byzVotes(t, up)
	}
	s.tracef(" precommits to %v", R)
	s.relayKind("precommits", R, up)
	if rapid.Bool().Draw(t, "firepc") {
		s.fireIfStep(up, "RoundStepPrecommitWait")
	}
	s.tracef("roundmacro end")
	s.Stat["round-macro"]++
}

// drawBiased draws a subset: with pAll % everything, with pOne % a single element, with 10 % nothing, else each
// element with probability 1/2.
func drawBiased(t *rapid.T, from []int, label string, pAll, pOne int) []int {
	if len(from) == 0 {
		return nil
	}
	x := rapid.IntRange(0, 99).Draw(t, label+"sel")
	switch {
	case x < pAll:
		return append([]int{}, from...)
	case x < pAll+pOne:
		return []int{rapid.SampledFrom(from).Draw(t, label+"one")}
	case x < pAll+pOne+10:
		return nil
	}
	var out []int
	for _, e := range from {
		if rapid.Bool().Draw(t, label) {
			out = append(out, e)
		}
	}
	return out
}

func (s *Sim) byzHasTwoThirds() bool {
	var b, tot int64
	for i, p := range s.Powers {
		tot += p
		for _, x := range s.Byz {
			if x == i {
				b += p
			}
		}
	}
	return b*3 >= tot*2
}

// allByzVote makes every Byzantine validator cast the same vote to node i.
func (s *Sim) allByzVote(i int, typ kproto.SignedMsgType, round uint32, id types.BlockID) {
	nd := s.Nodes[i]
	h := nd.CS.Height
	for _, b := range s.Byz {
		if nd.CS.Height != h {
			return
		}
		if v := s.SignVote(b, nd, typ, h, round, id); v != nil {
			s.send(i, b, &consensus.VoteMessage{Vote: v})
			s.DrainOwn(i)
		}
	}
}

// LockDance (only when the puppets hold >= 2/3): get the victim to hold a block, show it a polka so that it locks and
// precommits, move it to the next round with nil precommits, then optionally show it a newer polka for another value
// (unlock) and move on again. Every sub-step is conditional on the victim's actual state.
func (s *Sim) LockDance(t *rapid.T, up []int) {
	i := rapid.SampledFrom(up).Draw(t, "ldv")
	nd := s.Nodes[i]
	cs := nd.CS
	s.tracef("lockdance n%d begin at %d/%d/%v", i, cs.Height, cs.Round, cs.Step)
	s.fireIfStep([]int{i}, "RoundStepNewHeight", "RoundStepNewRound")
	h := cs.Height
	// 1. a complete valid proposal for the current round
	if cs.ProposalBlock == nil {
		prop := cs.Validators.GetProposer()
		if b := s.genesisIndexOf(prop.Address); b >= 0 && b != i {
			c := s.MakeCand(i, rapid.IntRange(0, len(s.Keys)-1).Draw(t, "ldp"), rapid.IntRange(0, 1).Draw(t, "lddrop"), "")
			if c != nil {
				s.tracef(" proposal %s", c.Name)
				p := s.SignProposal(b, h, cs.Round, 0, c.ID)
				s.send(i, b, &consensus.ProposalMessage{Proposal: p})
				for k := 0; k < int(c.Parts.Total()); k++ {
					s.send(i, b, &consensus.BlockPartMessage{Height: h, Round: cs.Round, Part: c.Parts.GetPart(k)})
				}
				s.DrainOwn(i)
			}
		}
	}
	if cs.Height != h || cs.ProposalBlock == nil || cs.ProposalBlockParts == nil || !cs.ProposalBlockParts.IsComplete() {
		s.tracef("lockdance: no block held")
		return
	}
	X := types.BlockID{Hash: cs.ProposalBlock.Hash(), PartsHeader: cs.ProposalBlockParts.Header()}
	r := cs.Round
	// 2. polka for X -> victim locks and precommits X
	s.tracef(" polka for held block at round %d", r)
	s.allByzVote(i, kproto.PrevoteType, r, X)
	s.fireIfStep([]int{i}, "RoundStepPropose", "RoundStepPrevoteWait")
	if cs.Height != h {
		return
	}
	// 3. nil precommits -> next round
	s.tracef(" nil precommits at round %d", r)
	s.allByzVote(i, kproto.PrecommitType, r, types.BlockID{})
	s.fireIfStep([]int{i}, "RoundStepPrecommitWait")
	if cs.Height != h {
		return
	}
	// 4. in the new round: optionally a polka for another value
	switch rapid.IntRange(0, 4).Draw(t, "ldnext") {
	case 0: // nothing: the victim should prevote its locked block when it gets to prevote
		s.fireIfStep([]int{i}, "RoundStepPropose")
	case 4: // a STALE polka (round <= the lock round) for another value must not unlock; then offer another block
		if cs.LockedBlock == nil || cs.LockedRound < 2 {
			s.fireIfStep([]int{i}, "RoundStepPropose")
			break
		}
		old := uint32(rapid.IntRange(1, int(cs.LockedRound)-1).Draw(t, "ldold"))
		var Y *Cand
		for _, c := range s.Cands[h] {
			if c.Valid && ExactKey(c.ID) != ExactKey(X) {
				Y = c
			}
		}
		if Y == nil {
			Y = s.MakeCand(i, rapid.IntRange(0, len(s.Keys)-1).Draw(t, "ldy"), 0, "")
		}
		if Y == nil || ExactKey(Y.ID) == ExactKey(X) {
			break
		}
		stale := Y.ID
		if rapid.Bool().Draw(t, "ldstalenil") {
			stale = types.BlockID{}
		}
		s.tracef(" stale polka at round %d (locked at %d), then proposal %s", old, cs.LockedRound, Y.Name)
		s.allByzVote(i, kproto.PrevoteType, old, stale)
		prop := cs.Validators.GetProposer()
		if b := s.genesisIndexOf(prop.Address); b >= 0 && b != i && cs.Height == h {
			p := s.SignProposal(b, h, cs.Round, 0, Y.ID)
			s.send(i, b, &consensus.ProposalMessage{Proposal: p})
			for k := 0; k < int(Y.Parts.Total()); k++ {
				s.send(i, b, &consensus.BlockPartMessage{Height: h, Round: cs.Round, Part: Y.Parts.GetPart(k)})
			}
			s.DrainOwn(i)
		}
		s.fireIfStep([]int{i}, "RoundStepPropose")
		s.Stat["stale-polka"]++
	case 1: // polka for nil in the new round -> unlock
		s.tracef(" nil polka at round %d", cs.Round)
		s.fireIfStep([]int{i}, "RoundStepPropose")
		s.allByzVote(i, kproto.PrevoteType, cs.Round, types.BlockID{})
		s.fireIfStep([]int{i}, "RoundStepPrevoteWait")
		s.allByzVote(i, kproto.PrecommitType, cs.Round, types.BlockID{})
		s.fireIfStep([]int{i}, "RoundStepPrecommitWait")
	default: // polka for another block Y in the new round (victim may or may not hold Y)
		var Y *Cand
		for _, c := range s.Cands[h] {
			if c.Valid && ExactKey(c.ID) != ExactKey(X) {
				Y = c
			}
		}
		if Y == nil {
			Y = s.MakeCand(i, rapid.IntRange(0, len(s.Keys)-1).Draw(t, "ldy"), 0, "")
		}
		if Y == nil || ExactKey(Y.ID) == ExactKey(X) {
			return
		}
		s.tracef(" polka for %s at round %d", Y.Name, cs.Round)
		give := rapid.Bool().Draw(t, "ldgive")
		prop := cs.Validators.GetProposer()
		if b := s.genesisIndexOf(prop.Address); give && b >= 0 && b != i {
			p := s.SignProposal(b, h, cs.Round, 0, Y.ID)
			s.send(i, b, &consensus.ProposalMessage{Proposal: p})
			for k := 0; k < int(Y.Parts.Total()); k++ {
				s.send(i, b, &consensus.BlockPartMessage{Height: h, Round: cs.Round, Part: Y.Parts.GetPart(k)})
			}
			s.DrainOwn(i)
		}
		s.fireIfStep([]int{i}, "RoundStepPropose")
		s.allByzVote(i, kproto.PrevoteType, cs.Round, Y.ID)
		s.fireIfStep([]int{i}, "RoundStepPrevoteWait")
		if cs.Height != h {
			return
		}
		s.allByzVote(i, kproto.PrecommitType, cs.Round, types.BlockID{})
		s.fireIfStep([]int{i}, "RoundStepPrecommitWait")
		// and one more round so that the victim gets to prevote again
		if cs.Height == h && rapid.Bool().Draw(t, "ldmore") {
			prop := cs.Validators.GetProposer()
			if b := s.genesisIndexOf(prop.Address); b >= 0 && b != i {
				p := s.SignProposal(b, h, cs.Round, 0, Y.ID)
				s.send(i, b, &consensus.ProposalMessage{Proposal: p})
				for k := 0; k < int(Y.Parts.Total()); k++ {
					s.send(i, b, &consensus.BlockPartMessage{Height: h, Round: cs.Round, Part: Y.Parts.GetPart(k)})
				}
				s.DrainOwn(i)
			}
			s.fireIfStep([]int{i}, "RoundStepPropose")
		}
	}
	s.Stat["lock-dance"]++
	s.tracef("lockdance end at %d/%d/%v", cs.Height, cs.Round, cs.Step)
}

func (s *Sim) powerOf(idx []int) int64 {
	var p int64
	for _, i := range idx {
		p += s.Powers[i]
	}
	return p
}

// byzVoteTo: every Byzantine validator casts (typ, round, id) to each node in targets (at that node's height).
func (s *Sim) byzVoteTo(targets []int, typ kproto.SignedMsgType, round uint32, id types.BlockID, h uint64) {
	for _, i := range targets {
		nd := s.Nodes[i]
		if s.down(i) || nd.CS.Height != h {
			continue
		}
		for _, b := range s.Byz {
			if v := s.SignVote(b, nd, typ, h, round, id); v != nil {
				s.send(i, b, &consensus.VoteMessage{Vote: v})
			}
		}
		s.DrainOwn(i)
	}
}

// SplitAttack scripts the classic attack on agreement with < 1/3 Byzantine power: get a set S1 of correct nodes to
// lock on X, let ONE node A see +2/3 precommits for X (Byzantine precommits shown to A only) so that it commits, keep
// everybody else in the dark so that they move to the next round, then push another block Y there with Byzantine
// prevotes and precommits. With correct locking rules Y can never get its +2/3; any weakening of the lock/unlock rules
// or of the quorum lets the others commit Y.
func (s *Sim) SplitAttack(t *rapid.T, up []int) {
	h := s.MinHeight(up)
	var at []int
	for _, i := range up {
		if s.Nodes[i].CS.Height == h {
			at = append(at, i)
		}
	}
	if len(at) < 2 {
		return
	}
	s.tracef("splitattack begin h=%d nodes=%v", h, at)
	s.fireIfStep(at, "RoundStepNewHeight", "RoundStepNewRound")
	// everybody must be in the same round for the script to make sense
	r := s.Nodes[at[0]].CS.Round
	for _, i := range at {
		if s.Nodes[i].CS.Round != r || s.Nodes[i].CS.Height != h {
			s.tracef("splitattack: nodes not aligned")
			return
		}
	}
	// 1. proposal X to everybody
	s.relayKind("proposal", at, at)
	ref := s.Nodes[at[0]].CS
	if prop := ref.Validators.GetProposer(); prop != nil {
		if b := s.genesisIndexOf(prop.Address); b >= 0 && s.Nodes[b] == nil {
			c := s.MakeCand(at[0], b, 0, "")
			if c != nil {
				p := s.SignProposal(b, h, r, 0, c.ID)
				for _, j := range at {
					s.send(j, b, &consensus.ProposalMessage{Proposal: p})
					for k := 0; k < int(c.Parts.Total()); k++ {
						s.send(j, b, &consensus.BlockPartMessage{Height: h, Round: r, Part: c.Parts.GetPart(k)})
					}
					s.DrainOwn(j)
				}
			}
		}
	}
	s.fireIfStep(at, "RoundStepPropose")
	var X types.BlockID
	for _, i := range at {
		cs := s.Nodes[i].CS
		if cs.ProposalBlock != nil && cs.ProposalBlockParts != nil && cs.ProposalBlockParts.IsComplete() {
			X = types.BlockID{Hash: cs.ProposalBlock.Hash(), PartsHeader: cs.ProposalBlockParts.Header()}
		}
	}
	if X.IsZero() {
		s.tracef("splitattack: no proposal")
		return
	}
	// 2. S1 (drawn, contains A) sees the polka for X, the rest does not
	A := rapid.SampledFrom(at).Draw(t, "saA")
	S1 := []int{A}
	for _, i := range at {
		if i != A && rapid.Bool().Draw(t, "saS1") {
			S1 = append(S1, i)
		}
	}
	var rest []int
	for _, i := range at {
		in := false
		for _, j := range S1 {
			if i == j {
				in = true
			}
		}
		if !in {
			rest = append(rest, i)
		}
	}
	s.tracef(" X held; A=n%d S1=%v rest=%v", A, S1, rest)
	s.byzVoteTo(S1, kproto.PrevoteType, r, X, h)
	s.relayKind("prevotes", S1, at)
	// the rest sees only some prevotes, then times out and precommits nil
	for _, i := range rest {
		j := rapid.SampledFrom(at).Draw(t, "sapv")
		s.relayKind("prevotes", []int{i}, []int{j})
	}
	s.byzVoteTo(rest, kproto.PrevoteType, r, types.BlockID{}, h)
	s.fireIfStep(rest, "RoundStepPrevoteWait", "RoundStepPropose")
	s.fireIfStep(S1, "RoundStepPrevoteWait")
	// 3. only A sees the precommits for X (S1's and the Byzantine ones)
	s.byzVoteTo([]int{A}, kproto.PrecommitType, r, X, h)
	s.relayKind("precommits", []int{A}, at)
	// 4. everybody else exchanges precommits without the Byzantine ones for X and moves on
	var others []int
	for _, i := range at {
		if i != A {
			others = append(others, i)
		}
	}
	s.byzVoteTo(others, kproto.PrecommitType, r, types.BlockID{}, h)
	s.relayKind("precommits", others, others)
	s.fireIfStep(others, "RoundStepPrecommitWait")
	// 5. next round among the others: push another block Y
	var live []int
	for _, i := range others {
		if s.Nodes[i].CS.Height == h {
			live = append(live, i)
		}
	}
	if len(live) == 0 {
		s.tracef("splitattack end (everybody committed)")
		return
	}
	for round := 0; round < 2; round++ {
		s.fireIfStep(live, "RoundStepNewRound")
		s.relayKind("proposal", live, live)
		r2 := s.Nodes[live[0]].CS.Round
		var Y *Cand
		if prop := s.Nodes[live[0]].CS.Validators.GetProposer(); prop != nil {
			if b := s.genesisIndexOf(prop.Address); b >= 0 && s.Nodes[b] == nil {
				Y = s.MakeCand(live[0], (b+1)%len(s.Keys), 0, "")
				if Y != nil && ExactKey(Y.ID) != ExactKey(X) {
					p := s.SignProposal(b, h, r2, 0, Y.ID)
					for _, j := range live {
						s.send(j, b, &consensus.ProposalMessage{Proposal: p})
						for k := 0; k < int(Y.Parts.Total()); k++ {
							s.send(j, b, &consensus.BlockPartMessage{Height: h, Round: r2, Part: Y.Parts.GetPart(k)})
						}
						s.DrainOwn(j)
					}
				}
			}
		}
		s.fireIfStep(live, "RoundStepPropose")
		// whatever non-X block the live nodes now hold is pushed by the Byzantine validators
		var Yid types.BlockID
		for _, i := range live {
			cs := s.Nodes[i].CS
			if cs.Height == h && cs.ProposalBlock != nil && cs.ProposalBlockParts != nil && cs.ProposalBlockParts.IsComplete() && !cs.ProposalBlock.HashesTo(X.Hash) {
				Yid = types.BlockID{Hash: cs.ProposalBlock.Hash(), PartsHeader: cs.ProposalBlockParts.Header()}
			}
		}
		s.tracef(" round %d: pushing other block=%v", r2, !Yid.IsZero())
		s.byzVoteTo(live, kproto.PrevoteType, r2, Yid, h)
		s.relayKind("prevotes", live, live)
		s.fireIfStep(live, "RoundStepPrevoteWait")
		s.byzVoteTo(live, kproto.PrecommitType, r2, Yid, h)
		s.relayKind("precommits", live, live)
		s.fireIfStep(live, "RoundStepPrecommitWait")
		var still []int
		for _, i := range live {
			if s.Nodes[i].CS.Height == h {
				still = append(still, i)
			}
		}
		live = still
		if len(live) == 0 {
			break
		}
	}
	s.Stat["split-attack"]++
	s.tracef("splitattack end")
}

// ByzVoteTo is the exported form of byzVoteTo: every Byzantine validator casts (typ, round, id) to each target at height h.
func (s *Sim) ByzVoteTo(targets []int, typ kproto.SignedMsgType, round uint32, id types.BlockID, h uint64) {
	s.byzVoteTo(targets, typ, round, id, h)
}

// TwoLocks scripts the state "two correct nodes locked on different blocks, each having missed the other's polka":
// round r: everybody holds X, only A sees the polka (Byzantine prevotes for X shown to A) and locks; nobody decides.
// round r+1: a proposer that is not locked offers Y; only C sees the polka for Y (Byzantine prevotes for Y shown to C)
// and locks; A prevotes X. Everybody times out into round r+2. With correct unlock rules the polka for Y reaches A
// later (a polka of a round it has already left) and releases it; the state is a liveness test for exactly that rule.
func (s *Sim) TwoLocks(t *rapid.T, up []int) {
	h := s.MinHeight(up)
	var at []int
	for _, i := range up {
		if s.Nodes[i].CS.Height == h {
			at = append(at, i)
		}
	}
	if len(at) < 3 {
		return
	}
	s.tracef("twolocks begin h=%d nodes=%v", h, at)
	s.fireIfStep(at, "RoundStepNewHeight", "RoundStepNewRound")
	r := s.Nodes[at[0]].CS.Round
	for _, i := range at {
		if s.Nodes[i].CS.Round != r || s.Nodes[i].CS.Height != h {
			s.tracef("twolocks: nodes not aligned")
			return
		}
	}
	proposeAll := func(round uint32) types.BlockID {
		s.relayKind("proposal", at, at)
		ref := s.Nodes[at[0]].CS
		if prop := ref.Validators.GetProposer(); prop != nil {
			if b := s.genesisIndexOf(prop.Address); b >= 0 && s.Nodes[b] == nil {
				if c := s.MakeCand(at[0], (b+int(round))%len(s.Keys), 0, ""); c != nil {
					p := s.SignProposal(b, h, round, 0, c.ID)
					for _, j := range at {
						s.send(j, b, &consensus.ProposalMessage{Proposal: p})
						for k := 0; k < int(c.Parts.Total()); k++ {
							s.send(j, b, &consensus.BlockPartMessage{Height: h, Round: round, Part: c.Parts.GetPart(k)})
						}
						s.DrainOwn(j)
					}
				}
			}
		}
		s.fireIfStep(at, "RoundStepPropose")
		var id types.BlockID
		cnt := map[string]int{}
		for _, i := range at {
			cs := s.Nodes[i].CS
			if cs.Height == h && cs.ProposalBlock != nil && cs.ProposalBlockParts != nil && cs.ProposalBlockParts.IsComplete() {
				k := types.BlockID{Hash: cs.ProposalBlock.Hash(), PartsHeader: cs.ProposalBlockParts.Header()}
				cnt[ExactKey(k)]++
				if cnt[ExactKey(k)] >= len(at)-1 {
					id = k
				}
			}
		}
		return id
	}
	A := rapid.SampledFrom(at).Draw(t, "tlA")
	X := proposeAll(r)
	if X.IsZero() {
		s.tracef("twolocks: no common proposal in round %d", r)
		return
	}
	// only A sees the polka for X
	s.byzVoteTo([]int{A}, kproto.PrevoteType, r, X, h)
	s.relayKind("prevotes", []int{A}, at)
	var rest []int
	for _, i := range at {
		if i != A {
			rest = append(rest, i)
		}
	}
	s.byzVoteTo(rest, kproto.PrevoteType, r, types.BlockID{}, h)
	for _, i := range rest {
		s.relayKind("prevotes", []int{i}, []int{rest[0], A})
	}
	s.fireIfStep(at, "RoundStepPrevoteWait")
	s.byzVoteTo(at, kproto.PrecommitType, r, types.BlockID{}, h)
	s.relayKind("precommits", at, at)
	s.fireIfStep(at, "RoundStepPrecommitWait")
	for _, i := range at {
		if s.Nodes[i].CS.Height != h || s.Nodes[i].CS.Round != r+1 {
			s.tracef("twolocks: round %d did not end as planned (%s)", r, s.Describe(at))
			return
		}
	}
	// round r+1: Y from an unlocked proposer, only C sees its polka
	Y := proposeAll(r + 1)
	if Y.IsZero() || ExactKey(Y) == ExactKey(X) {
		s.tracef("twolocks: no second block in round %d", r+1)
		return
	}
	C := rapid.SampledFrom(rest).Draw(t, "tlC")
	s.byzVoteTo([]int{C}, kproto.PrevoteType, r+1, Y, h)
	s.relayKind("prevotes", []int{C}, at)
	var others []int
	for _, i := range at {
		if i != C {
			others = append(others, i)
		}
	}
	s.byzVoteTo(others, kproto.PrevoteType, r+1, types.BlockID{}, h)
	for _, i := range others {
		s.relayKind("prevotes", []int{i}, []int{others[0]})
	}
	s.fireIfStep(at, "RoundStepPrevoteWait")
	s.byzVoteTo(at, kproto.PrecommitType, r+1, types.BlockID{}, h)
	s.relayKind("precommits", at, at)
	s.fireIfStep(at, "RoundStepPrecommitWait")
	s.Stat["two-locks"]++
	s.tracef("twolocks end: %s", s.Describe(at))
}

// relayVotes delivers to every node in `to` the votes of (typ, round) held by the nodes in `from`.
func (s *Sim) relayVotes(to, from []int, typ kproto.SignedMsgType, round uint32) {
	for _, i := range to {
		for _, j := range from {
			if i == j || s.down(i) || s.down(j) {
				continue
			}
			for _, m := range s.OffersOf(j, i) {
				if vm, ok := m.(*consensus.VoteMessage); ok && vm.Vote.Type == typ && vm.Vote.Round == round {
					s.send(i, j, m)
				}
			}
		}
		s.DrainOwn(i)
	}
}

// StalePolka scripts a schedule that needs no Byzantine validator, only delays. Round r: nobody but the proposer sees
// a proposal, so the others prevote nil; the victims V see 2/3 of the prevotes but not the one of Z (the straggler), so
// there is no nil polka for them yet; everybody precommits nil. Round r+1: block B reaches everybody but Z; V and C see
// its polka, lock and precommit; only C sees all precommits and commits B. V time out into round r+2. Now the straggler
// prevote of round r arrives at V: a polka (for nil) of a round OLDER than their lock. Then V and Z run on without C.
// With correct lock rules V keep prevoting B; if an old polka could release them, Z's next proposal would get decided
// and the final heal would show two different blocks at this height.
func (s *Sim) StalePolka(t *rapid.T, up []int) {
	h := s.MinHeight(up)
	var at []int
	for _, i := range up {
		if s.Nodes[i].CS.Height == h {
			at = append(at, i)
		}
	}
	if len(at) < 4 {
		return
	}
	s.tracef("stalepolka begin h=%d nodes=%v", h, at)
	s.fireIfStep(at, "RoundStepNewHeight", "RoundStepNewRound")
	r := s.Nodes[at[0]].CS.Round
	for _, i := range at {
		cs := s.Nodes[i].CS
		if cs.Round != r || cs.Height != h || cs.LockedBlock != nil {
			s.tracef("stalepolka: nodes not aligned / already locked")
			return
		}
	}
	perm := rapid.Permutation(at).Draw(t, "sproles")
	Z, C := perm[0], perm[1]
	V := perm[2:]
	notZ := append([]int{C}, V...)
	// round r: no proposal travels; everybody times out of propose (the proposer prevotes its own block)
	for _, i := range at {
		s.DrainOwn(i)
	}
	s.fireIfStep(at, "RoundStepPropose")
	// V and C exchange prevotes among themselves (Z's prevote is the straggler); Z hears everybody
	s.relayVotes(notZ, notZ, kproto.PrevoteType, r)
	s.relayVotes([]int{Z}, at, kproto.PrevoteType, r)
	s.fireIfStep(at, "RoundStepPrevoteWait")
	s.relayVotes(at, at, kproto.PrecommitType, r)
	s.fireIfStep(at, "RoundStepPrecommitWait")
	for _, i := range at {
		cs := s.Nodes[i].CS
		if cs.Height != h || cs.Round != r+1 || cs.LockedBlock != nil {
			s.tracef("stalepolka: round %d did not end undecided and unlocked (%s)", r, s.Describe(at))
			return
		}
	}
	// round r+1: the proposal reaches everybody but Z
	for _, i := range at {
		s.DrainOwn(i)
	}
	s.relayKind("proposal", notZ, at)
	s.relayKind("proposal", notZ, at) // parts follow once the header is known
	s.fireIfStep(at, "RoundStepPropose")
	s.relayVotes(notZ, notZ, kproto.PrevoteType, r+1)
	s.relayVotes([]int{Z}, V, kproto.PrevoteType, r+1)
	s.fireIfStep(at, "RoundStepPrevoteWait")
	locked := 0
	for _, i := range V {
		if s.Nodes[i].CS.LockedBlock != nil && s.Nodes[i].CS.LockedRound == r+1 {
			locked++
		}
	}
	if locked != len(V) {
		s.tracef("stalepolka: victims did not lock in round %d (%s)", r+1, s.Describe(at))
		return
	}
	// only C sees every precommit and decides; V see each other's and Z's
	s.relayVotes([]int{C}, at, kproto.PrecommitType, r+1)
	s.relayVotes(V, append([]int{Z}, V...), kproto.PrecommitType, r+1)
	s.relayVotes([]int{Z}, V, kproto.PrecommitType, r+1)
	s.fireIfStep(append([]int{Z}, V...), "RoundStepPrecommitWait")
	// the straggler: Z's prevote of round r finally reaches V
	s.tracef(" straggler prevote of round %d reaches %v (locked at %d)", r, V, r+1)
	s.relayVotes(V, []int{Z}, kproto.PrevoteType, r)
	// V and Z run on without C for a few rounds
	grp := append([]int{Z}, V...)
	for k := 0; k < 4; k++ {
		s.GossipToFixpoint(grp)
		alive := false
		for _, i := range grp {
			if s.Nodes[i].CS.Height == h {
				alive = true
				s.FireTimeout(i)
			}
		}
		s.GossipToFixpoint(grp)
		if !alive {
			break
		}
	}
	s.Stat["stale-polka-schedule"]++
	s.tracef("stalepolka end: %s", s.Describe(at))
}
