package netsim

import (
	"bytes"
	"fmt"
	"io"
	"os"
	"path/filepath"
	"sort"
	"strings"
	"sync"
	"time"

	"github.com/kardiachain/go-kardia/consensus"
	"github.com/kardiachain/go-kardia/kai/kaidb"
	"github.com/kardiachain/go-kardia/kai/kaidb/memorydb"
	"github.com/kardiachain/go-kardia/types"
)

// OpCounter totally orders the durable operations of one node (DB puts/deletes/batch writes, WAL writes and syncs)
// and takes the crash image immediately before operation number Cut is applied.
type OpCounter struct {
	mu    sync.Mutex
	N     int      // operations seen so far
	Cut   int      // take the image before op #Cut; -1 = never
	Dead  bool     // image taken: everything the node does from now on is discarded with it
	Log   []string // labels of the operations applied before the cut
	Next  string   // label of the operation that was about to be applied at the cut
	OnCut func()
}

func (c *OpCounter) op(label string) {
	c.mu.Lock()
	defer c.mu.Unlock()
	if c.Cut >= 0 && c.N == c.Cut && !c.Dead {
		c.Dead = true
		c.Next = label
		if c.OnCut != nil {
			c.OnCut()
		}
	}
	if !c.Dead {
		c.Log = append(c.Log, label)
	}
	c.N++
}

// CopyMem deep-copies a memory database.
func CopyMem(src *memorydb.Database) *memorydb.Database {
	dst := memorydb.New()
	it := src.NewIterator(nil, nil)
	for it.Next() {
		dst.Put(append([]byte{}, it.Key()...), append([]byte{}, it.Value()...))
	}
	it.Release()
	return dst
}

// KeyClass names the kind of record a database key belongs to (for window labels).
func KeyClass(k []byte) string {
	s := string(k)
	for _, p := range []string{"ConsensusStateHeight", "ConsensusState", "ConsensusValidatorsInfo", "ConsensusParamsInfo", "ConsensusPriorities", "LastBlock", "LastHeader", "evidence-", "Snapshot", "secure-key-", "kardia-", "DatabaseVersion"} {
		if strings.HasPrefix(s, p) {
			return p
		}
	}
	if len(k) == 32 {
		return "trienode"
	}
	if len(k) > 0 {
		c := k[0]
		if (c >= 'a' && c <= 'z') || (c >= 'A' && c <= 'Z') {
			return fmt.Sprintf("%c/%d", c, len(k))
		}
		return fmt.Sprintf("x%02x/%d", c, len(k))
	}
	return "?"
}

// RecDB is a memory database whose durable operations are counted.
type RecDB struct {
	*memorydb.Database
	C *OpCounter
}

func (d *RecDB) Put(k, v []byte) error {
	d.C.op("put[" + KeyClass(k) + "]")
	return d.Database.Put(k, v)
}
func (d *RecDB) Delete(k []byte) error {
	d.C.op("del[" + KeyClass(k) + "]")
	return d.Database.Delete(k)
}
func (d *RecDB) NewBatch() kaidb.Batch {
	return &recBatch{Batch: d.Database.NewBatch(), d: d, cls: map[string]int{}}
}

type recBatch struct {
	kaidb.Batch
	d   *RecDB
	cls map[string]int
	n   int
}

func (b *recBatch) Put(k, v []byte) error { b.cls[KeyClass(k)]++; b.n++; return b.Batch.Put(k, v) }
func (b *recBatch) Delete(k []byte) error {
	b.cls["del:"+KeyClass(k)]++
	b.n++
	return b.Batch.Delete(k)
}
func (b *recBatch) Reset() { b.cls = map[string]int{}; b.n = 0; b.Batch.Reset() }
func (b *recBatch) Write() error {
	if b.n == 0 {
		return b.Batch.Write()
	}
	var ks []string
	for k := range b.cls {
		ks = append(ks, k)
	}
	sort.Strings(ks)
	b.d.C.op("batch[" + strings.Join(ks, ",") + "]") // a batch is atomic: one durable operation
	return b.Batch.Write()
}

// MemWAL is an in-memory consensus WAL built on the product's real encoder and decoder. It distinguishes what has
// been written from what has been synced, so that a crash image can keep any prefix of the unsynced tail.
type MemWAL struct {
	mu     sync.Mutex
	buf    bytes.Buffer
	Synced int
	enc    *consensus.WALEncoder
	C      *OpCounter // may be nil
	marks  []int      // end offset of every record written
}

// NewMemWAL returns a WAL that already holds the #ENDHEIGHT 0 record, like a freshly started BaseWAL.
func NewMemWAL(c *OpCounter) *MemWAL {
	w := &MemWAL{}
	w.enc = consensus.NewWALEncoder(&w.buf)
	w.write(consensus.EndHeightMessage{Height: 0})
	w.Synced = w.buf.Len()
	w.C = c
	return w
}

// NewMemWALFrom continues an existing log.
func NewMemWALFrom(data []byte, c *OpCounter) *MemWAL {
	w := &MemWAL{C: c}
	w.buf.Write(data)
	w.enc = consensus.NewWALEncoder(&w.buf)
	w.Synced = w.buf.Len()
	return w
}

func walLabel(m consensus.WALMessage) string {
	switch x := m.(type) {
	case consensus.EndHeightMessage:
		return "EndHeight"
	case types.EventDataRoundState:
		return "step:" + x.Step
	case consensus.VerifTimeoutInfo:
		return "timeout:" + x.Step.String()
	case consensus.VerifMsgInfo:
		own := "peer"
		if x.PeerID == "" {
			own = "own"
		}
		switch v := x.Msg.(type) {
		case *consensus.VoteMessage:
			typ, tgt := "prevote", "block"
			if v.Vote.Type != 1 {
				typ = "precommit"
			}
			if v.Vote.BlockID.IsZero() {
				tgt = "nil"
			}
			return fmt.Sprintf("%s-%s:%s", own, typ, tgt)
		case *consensus.ProposalMessage:
			return own + "-proposal"
		case *consensus.BlockPartMessage:
			return own + "-part"
		}
		return own + "-msg"
	}
	return fmt.Sprintf("%T", m)
}

func (w *MemWAL) write(m consensus.WALMessage) error {
	err := w.enc.Encode(&consensus.TimedWALMessage{Time: time.Now().UTC(), Msg: m})
	w.marks = append(w.marks, w.buf.Len())
	return err
}

func (w *MemWAL) Write(m consensus.WALMessage) error {
	if w.C != nil {
		w.C.op("wal[" + walLabel(m) + "]")
	}
	w.mu.Lock()
	defer w.mu.Unlock()
	return w.write(m)
}

func (w *MemWAL) WriteSync(m consensus.WALMessage) error {
	if w.C != nil {
		w.C.op("walsync[" + walLabel(m) + "]")
	}
	w.mu.Lock()
	defer w.mu.Unlock()
	if err := w.write(m); err != nil {
		return err
	}
	w.Synced = w.buf.Len()
	return nil
}

func (w *MemWAL) FlushAndSync() error {
	w.mu.Lock()
	w.Synced = w.buf.Len()
	w.mu.Unlock()
	return nil
}
func (w *MemWAL) Start() error { return nil }
func (w *MemWAL) Stop() error  { return nil }
func (w *MemWAL) Wait()        {}

type nopCloser struct{ io.Reader }

func (nopCloser) Close() error { return nil }

func (w *MemWAL) SearchForEndHeight(height int64, options *consensus.WALSearchOptions) (io.ReadCloser, bool, error) {
	w.mu.Lock()
	data := append([]byte{}, w.buf.Bytes()...)
	w.mu.Unlock()
	rd := bytes.NewReader(data)
	dec := consensus.NewWALDecoder(rd)
	for {
		msg, err := dec.Decode()
		if err == io.EOF {
			return nil, false, nil
		}
		if err != nil {
			if options != nil && options.IgnoreDataCorruptionErrors && consensus.IsDataCorruptionError(err) {
				return nil, false, nil
			}
			return nil, false, err
		}
		if m, ok := msg.Msg.(consensus.EndHeightMessage); ok && m.Height == height {
			return nopCloser{rd}, true, nil
		}
	}
}

// Image returns the bytes that survive a crash now: everything synced plus a prefix of the unsynced tail chosen by
// tail: "none", "all", "records:<k>" (k whole unsynced records), "mid" (half of the first unsynced record).
func (w *MemWAL) Image(tail string) []byte {
	w.mu.Lock()
	defer w.mu.Unlock()
	all := w.buf.Bytes()
	end := w.Synced
	switch {
	case tail == "all":
		end = len(all)
	case tail == "mid":
		for _, m := range w.marks {
			if m > w.Synced {
				end = w.Synced + (m-w.Synced)/2
				break
			}
		}
	case strings.HasPrefix(tail, "records:"):
		var k int
		fmt.Sscanf(tail, "records:%d", &k)
		for _, m := range w.marks {
			if m > w.Synced && k > 0 {
				end = m
				k--
			}
		}
	}
	return append([]byte{}, all[:end]...)
}

// Unsynced reports how many bytes / records are written but not synced.
func (w *MemWAL) Unsynced() (bytes int, records int) {
	w.mu.Lock()
	defer w.mu.Unlock()
	for _, m := range w.marks {
		if m > w.Synced {
			records++
		}
	}
	return w.buf.Len() - w.Synced, records
}

// MaterialiseWAL writes a WAL image where a node with consensus RootDir = dir expects its log.
func MaterialiseWAL(dir string, data []byte) (string, error) {
	p := filepath.Join(dir, "cs.wal", "wal")
	if err := os.MkdirAll(filepath.Dir(p), 0o755); err != nil {
		return "", err
	}
	return p, os.WriteFile(p, data, 0o644)
}

// Phase classifies a crash point by how far the commit of the height in progress had got, from the labels of the
// operations applied before the cut.
func Phase(log []string) string {
	phase := "deciding" // consensus for the height in progress, own block-precommit not yet logged
	for _, l := range log {
		switch {
		case strings.HasPrefix(l, "batch[") && strings.Contains(l, "ConsensusState"):
			phase = "deciding"
		case l == "walsync[own-precommit:block]":
			phase = "precommit-logged"
		case strings.HasPrefix(l, "batch[") && strings.Contains(l, "H/33"):
			phase = "block-saved"
		case l == "walsync[EndHeight]":
			phase = "endheight-synced"
		case strings.HasPrefix(l, "batch[LastBlock"):
			phase = "head-written"
		case (strings.HasPrefix(l, "batch[") || strings.HasPrefix(l, "put[")) && (phase == "endheight-synced" || phase == "applying" || phase == "block-saved"):
			// (directly after "block-saved": a log without WAL labels - ApplyBlock only runs after the #ENDHEIGHT sync)
			phase = "applying"
		}
	}
	return phase
}
