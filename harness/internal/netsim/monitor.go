package netsim

import (
	"fmt"
	"sort"
	"time"

	gcrypto "github.com/ethereum/go-ethereum/crypto"

	"github.com/kardiachain/go-kardia/consensus"
	"github.com/kardiachain/go-kardia/lib/common"
	kproto "github.com/kardiachain/go-kardia/proto/kardiachain/types"
	"github.com/kardiachain/go-kardia/types"
)

// Finding is one monitor violation.
type Finding struct {
	Key string
	Msg string
}

type voteKey struct {
	h   uint64
	r   uint32
	typ kproto.SignedMsgType
	bid string // ExactKey of the block id ("…/0" for nil)
}

type nodeMon struct {
	tally     map[voteKey]map[common.Address]bool // valid votes delivered to (or cast by) this node, per exact id
	parts     map[string]map[uint32]bool          // parts-header key -> indices delivered
	fullBlock map[string]bool                     // exact ids whose every part was delivered / that it proposed itself
	signed    map[string]SigRec                   // kind/h/r -> first signing request
	lastPC    map[uint64]SigRec                   // height -> latest precommit for a block
	pending   []SigRec                            // non-nil prevotes/precommits awaiting the validity check (M5)
	storeTop  uint64                              // heights already checked for M4/M5
}

// Monitor evaluates the per-validator obligations of C03 (M1–M5) at every signing request of every correct node,
// against what had been delivered to that node at that moment. All bookkeeping for a message happens BEFORE the
// message is handed to the node.
type Monitor struct {
	s        *Sim
	nodes    map[int]*nodeMon
	Findings []Finding
	// counters (generator health / non-triviality)
	PrecommitBlock, PrevoteLockedBlock, PrevoteOtherAfterUnlock, InvalidOffered, Commits, SigRequests int
	LockThenHigherRound                                                                               bool
}

// AttachMonitor installs the monitor's hooks on the simulation.
func AttachMonitor(s *Sim) *Monitor {
	m := &Monitor{s: s, nodes: map[int]*nodeMon{}}
	for _, i := range s.Correct {
		m.nodes[i] = &nodeMon{tally: map[voteKey]map[common.Address]bool{}, parts: map[string]map[uint32]bool{}, fullBlock: map[string]bool{},
			signed: map[string]SigRec{}, lastPC: map[uint64]SigRec{}}
	}
	s.DeliverHook = func(to, from int, msg consensus.Message) { m.onMsg(to, msg) }
	s.OwnHook = func(node int, msg consensus.Message) { m.onMsg(node, msg) }
	s.SigHook = m.onSign
	return m
}

func (m *Monitor) add(key, format string, a ...interface{}) {
	m.Findings = append(m.Findings, Finding{key, fmt.Sprintf(format, a...)})
}

// validVote checks the signature independently (go-ethereum's Ecrecover over the product's public sign bytes) and
// that the signer is the validator at the claimed index of the node's validator set for that height.
func (m *Monitor) validVote(nd *Node, v *types.Vote) bool {
	if v == nil || len(v.Signature) != 65 {
		return false
	}
	if v.Height != nd.CS.Height {
		// votes for other heights (LastCommit stragglers, catch-up) are tallied against the genesis-order key list only
		// when the signer is a known key; membership for past heights is not needed by any monitor clause
	}
	sb := types.VoteSignBytes(m.s.G.ChainID, v.ToProto())
	pub, err := gcrypto.Ecrecover(gcrypto.Keccak256(sb), v.Signature)
	if err != nil || len(pub) != 65 {
		return false
	}
	var addr common.Address
	copy(addr[:], gcrypto.Keccak256(pub[1:])[12:])
	return addr == v.ValidatorAddress
}

func (m *Monitor) onMsg(to int, msg consensus.Message) {
	nm := m.nodes[to]
	if nm == nil {
		return
	}
	nd := m.s.Nodes[to]
	switch x := msg.(type) {
	case *consensus.VoteMessage:
		v := x.Vote
		if !m.validVote(nd, v) {
			return
		}
		k := voteKey{v.Height, v.Round, v.Type, ExactKey(v.BlockID)}
		if nm.tally[k] == nil {
			nm.tally[k] = map[common.Address]bool{}
		}
		nm.tally[k][v.ValidatorAddress] = true
	case *consensus.BlockPartMessage:
		if x.Part == nil {
			return
		}
		// a part counts for every candidate whose part set contains exactly this part at this index
		for _, c := range m.s.Cands[x.Height] {
			if x.Part.Index < c.Parts.Total() {
				if g := c.Parts.GetPart(int(x.Part.Index)); g != nil && string(g.Bytes) == string(x.Part.Bytes) {
					pk := ExactKey(c.ID)
					if nm.parts[pk] == nil {
						nm.parts[pk] = map[uint32]bool{}
					}
					nm.parts[pk][x.Part.Index] = true
					if len(nm.parts[pk]) == int(c.Parts.Total()) {
						nm.fullBlock[pk] = true
					}
				}
			}
		}
	}
}

func (m *Monitor) power(nd *Node, h uint64, set map[common.Address]bool) (int64, int64) {
	vs := nd.CS.Validators
	if h != nd.CS.Height {
		// a height already decided: the set that was entitled to sign it, from the node's own store
		if lv, err := nd.Store.LoadValidators(h); err == nil && lv != nil {
			vs = lv
		}
	}
	var p int64
	for a := range set {
		if _, v := vs.GetByAddress(a); v != nil {
			p += v.VotingPower
		}
	}
	return p, vs.TotalVotingPower()
}

func (m *Monitor) quorum(nd *Node, nm *nodeMon, k voteKey) bool {
	p, tot := m.power(nd, k.h, nm.tally[k])
	return p*3 > tot*2
}

func (m *Monitor) onSign(node int, s SigRec) {
	nm := m.nodes[node]
	if nm == nil {
		return
	}
	m.SigRequests++
	nd := m.s.Nodes[node]
	key := fmt.Sprintf("%s/%d/%d", s.Kind, s.Height, s.Round)
	if prev, ok := nm.signed[key]; ok {
		if ExactKey(prev.BlockID) != ExactKey(s.BlockID) || prev.POLRound != s.POLRound {
			m.add("M1.equivocation:"+s.Kind, "n%d signs a second %s at %d/%d for %s (first was %s)", node, s.Kind, s.Height, s.Round, m.name(s.BlockID), m.name(prev.BlockID))
		}
	} else {
		nm.signed[key] = s
	}
	exact := ExactKey(s.BlockID)
	switch s.Kind {
	case "proposal":
		// its own proposal: it holds the block
		nm.fullBlock[exact] = true
	case "precommit":
		if s.BlockID.IsZero() {
			return
		}
		m.PrecommitBlock++
		if !m.quorum(nd, nm, voteKey{s.Height, s.Round, kproto.PrevoteType, exact}) {
			p, tot := m.power(nd, s.Height, nm.tally[voteKey{s.Height, s.Round, kproto.PrevoteType, exact}])
			m.add("M2.precommit-without-polka", "n%d precommits %s at %d/%d but prevotes for that exact id delivered to it hold %d of %d", node, m.name(s.BlockID), s.Height, s.Round, p, tot)
		}
		if !nm.fullBlock[exact] {
			m.add("M2.precommit-without-block", "n%d precommits %s at %d/%d without holding all parts of it", node, m.name(s.BlockID), s.Height, s.Round)
		}
		if old, ok := nm.lastPC[s.Height]; !ok || old.Round <= s.Round {
			nm.lastPC[s.Height] = s
		}
		nm.pending = append(nm.pending, s)
	case "prevote":
		if s.BlockID.IsZero() {
			return
		}
		nm.pending = append(nm.pending, s)
		lp, ok := nm.lastPC[s.Height]
		if !ok || lp.Round >= s.Round {
			return
		}
		m.LockThenHigherRound = true
		if ExactKey(lp.BlockID) == exact {
			m.PrevoteLockedBlock++
			return
		}
		// prevote for another block after having precommitted lp: needs a newer polka for a value other than lp
		okPolka := false
		for k := range nm.tally {
			if k.h == s.Height && k.typ == kproto.PrevoteType && k.r > lp.Round && k.r <= s.Round && k.bid != ExactKey(lp.BlockID) && m.quorum(nd, nm, k) {
				okPolka = true
			}
		}
		if !okPolka {
			m.add("M3.prevote-against-lock", "n%d prevotes %s at %d/%d after precommitting %s in round %d, with no +2/3 prevotes for another value in a round in (%d,%d] delivered", node, m.name(s.BlockID), s.Height, s.Round, m.name(lp.BlockID), lp.Round, lp.Round, s.Round)
		} else {
			m.PrevoteOtherAfterUnlock++
		}
	}
}

func (m *Monitor) name(id types.BlockID) string {
	if id.IsZero() {
		return "nil"
	}
	if c := m.s.CandByID(id); c != nil {
		return c.Name
	}
	return fmt.Sprintf("unknown:%x", id.Hash.Bytes()[:4])
}

// EndStep runs the checks that need the candidate registry to be up to date (M5) and the commit checks (M4, M5).
func (m *Monitor) EndStep() {
	m.s.RegisterFromNodes()
	for _, i := range m.s.Correct {
		nm := m.nodes[i]
		nd := m.s.Nodes[i]
		if nm == nil || nd == nil || m.s.down(i) {
			continue
		}
		for _, s := range nm.pending {
			c := m.s.CandByID(s.BlockID)
			if c == nil {
				m.add("M5.voted-unknown-block", "n%d signed a %s at %d/%d for a block id no proposer ever produced: %x", i, s.Kind, s.Height, s.Round, s.BlockID.Hash.Bytes()[:6])
			} else if !c.Valid {
				m.add("M5.voted-invalid-block:"+c.Invalid, "n%d signed a %s at %d/%d for %s, which violates validity rule %q (%s)", i, s.Kind, s.Height, s.Round, c.Name, c.Invalid, c.Desc)
			} else if c.Height != s.Height {
				m.add("M5.voted-invalid-block:stale-height", "n%d signed a %s at %d/%d for %s, a block built for height %d (%s)", i, s.Kind, s.Height, s.Round, c.Name, c.Height, c.Desc)
			}
		}
		nm.pending = nil
		top := nd.BOps.Height()
		for h := nm.storeTop + 1; h <= top; h++ {
			b := nd.BOps.LoadBlock(h)
			meta := nd.BOps.LoadBlockMeta(h)
			if b == nil || meta == nil {
				m.add("M4.commit-without-block", "n%d store height %d but block %d cannot be loaded", i, top, h)
				continue
			}
			m.Commits++
			id := meta.BlockID
			exact := ExactKey(id)
			okQ := false
			for k := range nm.tally {
				if k.h == h && k.typ == kproto.PrecommitType && k.bid == exact && m.quorum(nd, nm, k) {
					okQ = true
				}
			}
			if !okQ {
				m.add("M4.commit-without-precommit-quorum", "n%d committed %s at height %d but no single round has +2/3 precommits for that exact id among the votes delivered to it", i, m.name(id), h)
			}
			if c := m.s.CandByID(id); c != nil && !c.Valid {
				m.add("M5.committed-invalid-block:"+c.Invalid, "n%d committed %s at height %d, which violates validity rule %q", i, c.Name, h, c.Invalid)
			} else if c != nil && c.Height != h {
				m.add("M5.committed-invalid-block:stale-height", "n%d committed %s at height %d, a block built for height %d", i, c.Name, h, c.Height)
			}
			// independent validity of the extension: height, parent id, median time
			if b.Height() != h {
				m.add("M5.committed-wrong-height", "n%d block stored at %d has height %d", i, h, b.Height())
			}
			if h > 1 {
				pm := nd.BOps.LoadBlockMeta(h - 1)
				if pm != nil && ExactKey(b.Header().LastBlockID) != ExactKey(pm.BlockID) {
					m.add("M5.committed-wrong-parent", "n%d block %d names parent %x, it committed %x at %d", i, h, b.Header().LastBlockID.Hash.Bytes()[:6], pm.BlockID.Hash.Bytes()[:6], h-1)
				}
				if want, ok := m.medianTime(nd, h, b.LastCommit()); ok && !b.Time().Equal(want) {
					m.add("M5.committed-wrong-time", "n%d block %d has time %v, weighted median of its LastCommit is %v", i, h, b.Time(), want)
				}
			}
		}
		nm.storeTop = top
	}
}

// medianTime is an independent implementation of the prescribed block time: the weighted median of the LastCommit
// timestamps, each signer weighted by its voting power in the validator set of the previous height.
func (m *Monitor) medianTime(nd *Node, h uint64, c *types.Commit) (time.Time, bool) {
	vals, err := nd.Store.LoadValidators(h - 1)
	if err != nil || vals == nil || c == nil {
		return time.Time{}, false
	}
	type wt struct {
		t time.Time
		w int64
	}
	var ws []wt
	var total int64
	for _, sg := range c.Signatures {
		if sg.Absent() {
			continue
		}
		_, v := vals.GetByAddress(sg.ValidatorAddress)
		if v == nil {
			continue
		}
		ws = append(ws, wt{sg.Timestamp, v.VotingPower})
		total += v.VotingPower
	}
	if len(ws) == 0 {
		return time.Time{}, false
	}
	sort.SliceStable(ws, func(a, b int) bool { return ws[a].t.UnixNano() < ws[b].t.UnixNano() })
	median := total / 2
	for _, x := range ws {
		if median <= x.w {
			return x.t, true
		}
		median -= x.w
	}
	return time.Time{}, false
}
