package netsim

import (
	"fmt"
	cstypes "github.com/kardiachain/go-kardia/consensus/types"
	"strings"

	"github.com/kardiachain/go-kardia/consensus"
	"github.com/kardiachain/go-kardia/lib/p2p"
	kproto "github.com/kardiachain/go-kardia/proto/kardiachain/types"
	"github.com/kardiachain/go-kardia/types"
)

func (p *RecPV) SignVote(chainID string, v *kproto.Vote) error {
	if p.OnSign != nil {
		bid, _ := types.BlockIDFromProto(&v.BlockID)
		k := "prevote"
		if v.Type == kproto.PrecommitType {
			k = "precommit"
		}
		r := SigRec{Kind: k, Height: v.Height, Round: v.Round, Timestamp: v.Timestamp}
		if bid != nil {
			r.BlockID = *bid
		}
		p.OnSign(r)
	}
	return p.PrivValidator.SignVote(chainID, v)
}

func (p *RecPV) SignProposal(chainID string, pr *kproto.Proposal) error {
	if p.OnSign != nil {
		bid, _ := types.BlockIDFromProto(&pr.BlockID)
		r := SigRec{Kind: "proposal", Height: pr.Height, Round: pr.Round, POLRound: pr.PolRound, Timestamp: pr.Timestamp}
		if bid != nil {
			r.BlockID = *bid
		}
		p.OnSign(r)
	}
	return p.PrivValidator.SignProposal(chainID, pr)
}

// Net is a set of simulated nodes plus the delivery primitives. Hooks let checks keep their
// own monitors; all hooks are called BEFORE the message is handed to the node (a single delivery can
// complete a block and run prevote and precommit inside the same call).
type Net struct {
	Nodes []*Node
	// Down[i]: node i is crashed/absent (skipped by every primitive).
	Down []bool
	// OnDeliver is called before msg (from peer `from`, -1 = adversary) is handed to node `to`.
	OnDeliver func(to, from int, msg consensus.Message)
	// OnOwn is called before a node's own internal message is handed back to it (and becomes publishable).
	OnOwn func(node int, msg consensus.Message)
	// OnTimeout is called before a timeout is fired at a node.
	OnTimeout func(node int, ti consensus.VerifTimeoutInfo)
	// OwnDone is called after a node's own message has been processed (it is now part of its gossipable state).
	OwnDone func(node int, msg consensus.Message)
	// Died reports that node i's process is dead (crash image taken); the node is marked down after the current primitive.
	Died func(i int) bool
	// HaltOnDeath freezes the whole network at the instant a node dies (every primitive becomes a no-op), so that the
	// other nodes are exactly in the state they had at the crash when the node comes back.
	HaltOnDeath bool
	Halted      bool
	// Filter drops a message (true) before it reaches its destination.
	Filter func(to, from int, msg consensus.Message) bool
	// After is called after every primitive (delivery, own-queue drain, timeout).
	After func()
	// ReactorGossip: what a node offers another is computed by OffersReactor instead of Offers.
	ReactorGossip bool
	// WriteWAL makes the primitives log to the node's WAL like receiveRoutine does.
	WriteWAL bool
	// Trace collects a textual log of the schedule (for replay files and evidence samples).
	Trace   []string
	TraceOn bool
	Steps   int

	maj23Seen map[string]bool
}

func (n *Net) tracef(f string, a ...interface{}) {
	if n.TraceOn {
		n.Trace = append(n.Trace, fmt.Sprintf(f, a...))
	}
}

// TraceText returns the schedule log.
func (n *Net) TraceText() string { return strings.Join(n.Trace, "\n") }

// Start schedules round 0 on every node (what OnStart does after WAL catch-up).
func (n *Net) Start() {
	for i, nd := range n.Nodes {
		if !n.down(i) {
			nd.CS.VerifScheduleRound0()
		}
	}
}

func (n *Net) down(i int) bool { return n.Halted || (n.Down != nil && n.Down[i]) }

// Close stops all nodes.
func (n *Net) Close() {
	for _, nd := range n.Nodes {
		if nd != nil {
			nd.Close()
		}
	}
}

// Deliver hands a peer message to node `to` exactly as receiveRoutine would (WAL write, then handleMsg).
func (n *Net) Deliver(to, from int, msg consensus.Message) {
	if n.down(to) {
		return
	}
	if n.Filter != nil && n.Filter(to, from, msg) {
		return
	}
	if n.OnDeliver != nil {
		n.OnDeliver(to, from, msg)
	}
	nd := n.Nodes[to]
	if m23, ok := msg.(*consensus.VoteSetMaj23Message); ok {
		// what ConsensusManager.Receive does for a VoteSetMaj23Message (it never reaches handleMsg / the WAL)
		key := fmt.Sprintf("%d<-%d %d/%d/%d %x/%x/%d", to, from, m23.Height, m23.Round, m23.Type, m23.BlockID.Hash.Bytes(), m23.BlockID.PartsHeader.Hash.Bytes(), m23.BlockID.PartsHeader.Total)
		if n.maj23Seen == nil {
			n.maj23Seen = map[string]bool{}
		}
		if n.maj23Seen[key] || nd.CS.Height != m23.Height {
			return
		}
		n.maj23Seen[key] = true
		n.Steps++
		nd.CS.Votes.SetPeerMaj23(m23.Round, m23.Type, p2p.ID(fmt.Sprintf("p%d", from)), m23.BlockID)
		return
	}
	mi := consensus.VerifNewMsgInfo(msg, p2p.ID(fmt.Sprintf("p%d", from)))
	if n.WriteWAL {
		nd.CS.VerifWAL().Write(mi)
	}
	n.Steps++
	nd.CS.VerifHandleMsg(mi)
	n.checkDied(to)
	if n.After != nil {
		n.After()
	}
}

func (n *Net) checkDied(i int) bool {
	if n.Died != nil && n.Died(i) {
		if n.Down == nil {
			n.Down = make([]bool, len(n.Nodes))
		}
		n.Down[i] = true
		if n.HaltOnDeath {
			n.Halted = true
		}
		return true
	}
	return false
}

// DrainOwn processes the node's own queued messages (proposal, parts, votes) like receiveRoutine does
// (WriteSync, then handleMsg) and returns them. Afterwards they are part of the node's round state and
// therefore visible to Offers().
func (n *Net) DrainOwn(i int) []consensus.Message {
	if n.down(i) {
		return nil
	}
	nd := n.Nodes[i]
	var out []consensus.Message
	for {
		mi, ok := nd.CS.VerifPopInternal()
		if !ok {
			return out
		}
		if n.OnOwn != nil {
			n.OnOwn(i, mi.Msg)
		}
		if n.WriteWAL {
			nd.CS.VerifWAL().WriteSync(mi)
		}
		n.Steps++
		nd.CS.VerifHandleMsg(mi)
		if n.checkDied(i) {
			return out // the dying step publishes nothing
		}
		if n.OwnDone != nil {
			n.OwnDone(i, mi.Msg)
		}
		if n.After != nil {
			n.After()
		}
		out = append(out, mi.Msg)
	}
}

// FireTimeout fires the node's pending timeout (if any), like receiveRoutine does for a tock.
func (n *Net) FireTimeout(i int) bool {
	if n.down(i) {
		return false
	}
	nd := n.Nodes[i]
	ti, ok := nd.Tick.Take()
	if !ok {
		return false
	}
	if n.OnTimeout != nil {
		n.OnTimeout(i, ti)
	}
	if n.WriteWAL {
		nd.CS.VerifWAL().Write(ti)
	}
	n.tracef("timeout n%d %d/%d/%v", i, ti.Height, ti.Round, ti.Step)
	n.Steps++
	nd.CS.VerifHandleTimeout(ti)
	if n.checkDied(i) {
		return true
	}
	if n.After != nil {
		n.After()
	}
	n.DrainOwn(i)
	return true
}

// Fingerprint summarises what a node holds (used to detect a gossip fixpoint).
func Fingerprint(nd *Node) string {
	cs := nd.CS
	nv := 0
	for r := uint32(0); r <= cs.Round+1; r++ {
		for _, vs := range []*types.VoteSet{cs.Votes.Prevotes(r), cs.Votes.Precommits(r)} {
			if vs != nil {
				for i := 0; i < vs.Size(); i++ {
					if vs.GetByIndex(uint32(i)) != nil {
						nv++
					}
				}
			}
		}
	}
	np := uint32(0)
	if cs.ProposalBlockParts != nil {
		np = cs.ProposalBlockParts.Count()
	}
	lc := 0
	if cs.LastCommit != nil {
		for i := 0; i < cs.LastCommit.Size(); i++ {
			if cs.LastCommit.GetByIndex(uint32(i)) != nil {
				lc++
			}
		}
	}
	return fmt.Sprintf("%d/%d/%d v%d p%d prop%v lc%d", cs.Height, cs.Round, cs.Step, nv, np, cs.Proposal != nil, lc)
}

// hasSameVote reports whether vote set ws already holds v (same validator index AND same block id).
func hasSameVote(ws *types.VoteSet, v *types.Vote) bool {
	if ws == nil {
		return false
	}
	if ba := ws.BitArrayByBlockID(v.BlockID); ba != nil && ba.GetIndex(int(v.ValidatorIndex)) {
		return true
	}
	if e := ws.GetByIndex(v.ValidatorIndex); e != nil && e.BlockID.Equal(v.BlockID) {
		return true
	}
	return false
}

// Offers lists what node `from` could gossip to node `to` right now. It models what the reactor reads from the
// sender's RoundState and block store: proposal (same height and round), parts matching the receiver's part-set
// header, every vote of the sender's height vote set and LastCommit the receiver lacks, for a receiver on a
// lower height the stored commit's precommits and the stored block parts, and the +2/3 claims of queryMaj23Routine
// (VoteSetMaj23 for the receiver's round prevotes/precommits and for the catch-up commit). A vote is offered when the
// receiver does not hold that same vote; the receiver itself ignores a conflicting vote unless a peer has claimed a
// majority for its block (the real reactor re-sends such votes after the VoteSetBits exchange).
func Offers(from, to *Node) []consensus.Message { return offers(from, to, false) }

// OffersReactor is Offers restricted to the votes the product's gossipVotesRoutine would pick for a peer in the
// receiver's state (PeerState taken to be up to date): only the receiver's own round - and only while the sender is in
// that round or a later one - plus the POL round of the proposal the receiver holds; the previous height's commit only
// while the receiver is in the new-height step. Votes of rounds the receiver has not reached are NOT sent (it gets there
// through +2/3-any and its own timeouts, round by round).
func OffersReactor(from, to *Node) []consensus.Message { return offers(from, to, true) }

func offers(from, to *Node, reactorRule bool) []consensus.Message {
	var out []consensus.Message
	a, b := from.CS, to.CS
	if a.Height == b.Height {
		if a.Proposal != nil && b.Proposal == nil && a.Round == b.Round {
			out = append(out, &consensus.ProposalMessage{Proposal: a.Proposal})
		}
		if a.ProposalBlockParts != nil && b.ProposalBlockParts != nil && a.ProposalBlockParts.HasHeader(b.ProposalBlockParts.Header()) {
			for i := 0; i < int(a.ProposalBlockParts.Total()); i++ {
				if p := a.ProposalBlockParts.GetPart(i); p != nil && b.ProposalBlockParts.GetPart(i) == nil {
					out = append(out, &consensus.BlockPartMessage{Height: b.Height, Round: b.Round, Part: p})
				}
			}
		}
		// maj23 claims for the receiver's round (queryMaj23Routine)
		if vs := a.Votes.Prevotes(b.Round); vs != nil {
			if id, ok := vs.TwoThirdsMajority(); ok {
				out = append(out, &consensus.VoteSetMaj23Message{Height: b.Height, Round: b.Round, Type: kproto.PrevoteType, BlockID: id})
			}
		}
		if vs := a.Votes.Precommits(b.Round); vs != nil {
			if id, ok := vs.TwoThirdsMajority(); ok {
				out = append(out, &consensus.VoteSetMaj23Message{Height: b.Height, Round: b.Round, Type: kproto.PrecommitType, BlockID: id})
			}
		}
		// … and for the POL round of the proposal the receiver holds ("Send Height/Round/ProposalPOL")
		if b.Proposal != nil && b.Proposal.POLRound != 0 {
			if vs := a.Votes.Prevotes(b.Proposal.POLRound); vs != nil {
				if id, ok := vs.TwoThirdsMajority(); ok {
					out = append(out, &consensus.VoteSetMaj23Message{Height: b.Height, Round: b.Proposal.POLRound, Type: kproto.PrevoteType, BlockID: id})
				}
			}
		}
		polRound := uint32(0)
		if b.Proposal != nil {
			polRound = b.Proposal.POLRound
		}
		for r := uint32(1); r <= a.Round+1; r++ {
			for _, typ := range []kproto.SignedMsgType{kproto.PrevoteType, kproto.PrecommitType} {
				if reactorRule {
					own := r == b.Round && b.Round <= a.Round && (typ == kproto.PrevoteType || b.Step <= cstypes.RoundStepPrecommitWait)
					pol := r == polRound && typ == kproto.PrevoteType
					if !own && !pol {
						continue
					}
				}
				var vs, ws *types.VoteSet
				if typ == kproto.PrevoteType {
					vs, ws = a.Votes.Prevotes(r), b.Votes.Prevotes(r)
				} else {
					vs, ws = a.Votes.Precommits(r), b.Votes.Precommits(r)
				}
				if vs == nil {
					continue
				}
				for i := 0; i < vs.Size(); i++ {
					v := vs.GetByIndex(uint32(i))
					if v == nil || hasSameVote(ws, v) {
						continue
					}
					out = append(out, &consensus.VoteMessage{Vote: v})
				}
			}
		}
		if a.LastCommit != nil && b.LastCommit != nil && (!reactorRule || b.Step == cstypes.RoundStepNewHeight) {
			for i := 0; i < a.LastCommit.Size(); i++ {
				if v := a.LastCommit.GetByIndex(uint32(i)); v != nil && b.LastCommit.GetByIndex(uint32(i)) == nil {
					out = append(out, &consensus.VoteMessage{Vote: v})
				}
			}
		}
	} else if a.Height > b.Height {
		// catch-up from a's block store
		c := a.LoadCommit(b.Height)
		if c != nil {
			out = append(out, &consensus.VoteSetMaj23Message{Height: b.Height, Round: c.Round, Type: kproto.PrecommitType, BlockID: c.BlockID})
			ws := b.Votes.Precommits(c.Round)
			for i := range c.Signatures {
				if c.Signatures[i].Absent() {
					continue
				}
				v := c.GetVote(uint32(i))
				if hasSameVote(ws, v) {
					continue
				}
				out = append(out, &consensus.VoteMessage{Vote: v})
			}
			if b.ProposalBlockParts != nil && b.ProposalBlockParts.HasHeader(c.BlockID.PartsHeader) {
				for i := 0; i < int(c.BlockID.PartsHeader.Total); i++ {
					if b.ProposalBlockParts.GetPart(i) == nil {
						if p := from.BOps.LoadBlockPart(b.Height, i); p != nil {
							out = append(out, &consensus.BlockPartMessage{Height: b.Height, Round: c.Round, Part: p})
						}
					}
				}
			}
		}
		if a.Height == b.Height+1 && a.LastCommit != nil {
			// gossipVotesRoutine: "peer is lagging by one height: send LastCommit"
			for i := 0; i < a.LastCommit.Size(); i++ {
				v := a.LastCommit.GetByIndex(uint32(i))
				if v == nil || hasSameVote(b.Votes.Precommits(v.Round), v) {
					continue
				}
				out = append(out, &consensus.VoteMessage{Vote: v})
			}
		}
	}
	return out
}

// OffersOf lists what node j offers node i under the network's gossip rule.
func (n *Net) OffersOf(j, i int) []consensus.Message {
	return offers(n.Nodes[j], n.Nodes[i], n.ReactorGossip)
}

// GossipToFixpoint delivers everything every up node in `group` can offer to every other node of the group until
// nothing changes. Returns false if no fixpoint was reached within the iteration bound.
func (n *Net) GossipToFixpoint(group []int) bool {
	for iter := 0; iter < 300; iter++ {
		changed := false
		for _, i := range group {
			if n.down(i) {
				continue
			}
			before := Fingerprint(n.Nodes[i])
			n.DrainOwn(i)
			for _, j := range group {
				if i == j || n.down(j) {
					continue
				}
				for _, m := range n.OffersOf(j, i) {
					n.Deliver(i, j, m)
				}
			}
			n.DrainOwn(i)
			if Fingerprint(n.Nodes[i]) != before {
				changed = true
			}
		}
		if !changed {
			return true
		}
	}
	return false
}

// All returns the indices of all nodes.
func (n *Net) All() []int {
	out := make([]int, len(n.Nodes))
	for i := range out {
		out[i] = i
	}
	return out
}

// MinHeight / MaxHeight over up nodes of the group.
func (n *Net) MinHeight(group []int) uint64 {
	m := ^uint64(0)
	for _, i := range group {
		if !n.down(i) && n.Nodes[i].CS.Height < m {
			m = n.Nodes[i].CS.Height
		}
	}
	return m
}

func (n *Net) MaxHeight(group []int) uint64 {
	m := uint64(0)
	for _, i := range group {
		if !n.down(i) && n.Nodes[i].CS.Height > m {
			m = n.Nodes[i].CS.Height
		}
	}
	return m
}

// SyncRun is the synchronous suffix: gossip to fixpoint, and only when nothing moves fire pending timeouts one
// node at a time (each followed by gossip). It stops when every up node of the group has reached `target` height
// or after maxTimeouts timeouts. Returns (reached, timeoutsFired, stuckReason).
func (n *Net) SyncRun(group []int, target uint64, maxTimeouts int) (bool, int, string) {
	timeouts := 0
	for {
		if !n.GossipToFixpoint(group) {
			return false, timeouts, "gossip did not reach a fixpoint"
		}
		if n.MinHeight(group) >= target {
			return true, timeouts, ""
		}
		fired := false
		for _, i := range group {
			if n.down(i) || n.Nodes[i].CS.Height >= target {
				continue
			}
			if n.FireTimeout(i) {
				fired = true
				timeouts++
				if !n.GossipToFixpoint(group) {
					return false, timeouts, "gossip did not reach a fixpoint"
				}
			}
		}
		if n.MinHeight(group) >= target {
			return true, timeouts, ""
		}
		if !fired {
			return false, timeouts, "deadlock: no pending timeout and target not reached: " + n.Describe(group)
		}
		if timeouts > maxTimeouts {
			return false, timeouts, fmt.Sprintf("no progress after %d timeouts: %s", timeouts, n.Describe(group))
		}
	}
}

// Describe prints the round state of the group's nodes.
func (n *Net) Describe(group []int) string {
	var s []string
	for _, i := range group {
		if n.down(i) {
			s = append(s, fmt.Sprintf("n%d:down", i))
			continue
		}
		cs := n.Nodes[i].CS
		lock := "-"
		if cs.LockedBlock != nil {
			lock = fmt.Sprintf("%x@%d", cs.LockedBlock.Hash().Bytes()[:3], cs.LockedRound)
		}
		s = append(s, fmt.Sprintf("n%d:%s lock=%s", i, Fingerprint(n.Nodes[i]), lock))
	}
	return strings.Join(s, " | ")
}

// Tracef appends a line to the schedule log.
func (n *Net) Tracef(f string, a ...interface{}) { n.tracef(f, a...) }

// FireTimeoutNoDrain fires the node's pending timeout and leaves its own messages in its queue.
func (n *Net) FireTimeoutNoDrain(i int) bool {
	if n.down(i) {
		return false
	}
	nd := n.Nodes[i]
	ti, ok := nd.Tick.Take()
	if !ok {
		return false
	}
	if n.OnTimeout != nil {
		n.OnTimeout(i, ti)
	}
	if n.WriteWAL {
		nd.CS.VerifWAL().Write(ti)
	}
	n.Steps++
	nd.CS.VerifHandleTimeout(ti)
	if n.After != nil {
		n.After()
	}
	return true
}

// DescribeOffers summarises what every up node of the group could still offer to every other one (debug aid for
// no-progress states).
func (n *Net) DescribeOffers(group []int) string {
	var out []string
	for _, i := range group {
		for _, j := range group {
			if i == j || n.down(i) || n.down(j) {
				continue
			}
			cnt := map[string]int{}
			for _, m := range n.OffersOf(j, i) {
				switch x := m.(type) {
				case *consensus.VoteMessage:
					cnt[fmt.Sprintf("vote(%d/%d/%d)", x.Vote.Height, x.Vote.Round, x.Vote.Type)]++
				case *consensus.VoteSetMaj23Message:
					cnt[fmt.Sprintf("maj23(%d/%d/%d)", x.Height, x.Round, x.Type)]++
				default:
					cnt[fmt.Sprintf("%T", m)]++
				}
			}
			if len(cnt) > 0 {
				out = append(out, fmt.Sprintf("n%d<-n%d:%v", i, j, cnt))
			}
		}
	}
	return strings.Join(out, " ")
}
