package netsim

import (
	"fmt"
	"math/big"

	"github.com/kardiachain/go-kardia/kvm"
	"github.com/kardiachain/go-kardia/lib/common"
	"github.com/kardiachain/go-kardia/mainchain/staking"
	"github.com/kardiachain/go-kardia/types"
)

// Staker sends real staking transactions (delegate / undelegate to a validator's contract) from the funded
// non-validator accounts of the simulated genesis (Key(100), Key(101)); the next proposer includes them and the staking
// contract reports the new powers at the end of that block, which is how a validator set changes on a real chain (the
// new set votes two heights later).
type Staker struct {
	s      *Sim
	valSmc []common.Address
	nonce  [2]uint64
	Staked [2]map[int]bool // delegator -> validator index it has a delegation with
	abi    *staking.ValidatorSmcUtil
}

// NewStaker resolves the validators' staking contracts from the genesis state.
func NewStaker(s *Sim) (*Staker, error) {
	k := &Staker{s: s, Staked: [2]map[int]bool{{}, {}}}
	su, err := staking.NewSmcStakingUtil()
	if err != nil {
		return nil, err
	}
	if k.abi, err = staking.NewSmcValidatorUtil(); err != nil {
		return nil, err
	}
	nd := s.Nodes[s.Correct[0]]
	sdb, err := nd.BC.State()
	if err != nil {
		return nil, err
	}
	for i := range s.Keys {
		a, err := su.GetValFromOwner(sdb, nd.BC.CurrentBlock().Header(), nd.BC, kvm.Config{}, s.Addr(i))
		if err != nil {
			return nil, fmt.Errorf("validator contract of %d: %w", i, err)
		}
		k.valSmc = append(k.valSmc, a)
	}
	return k, nil
}

// Send signs the transaction and hands it to every correct node's pool. units: delegation in 1e24 wei (= 1e14 voting
// power), 0 = undelegate everything that delegator has with that validator.
func (k *Staker) Send(delegator, val int, units int64) error {
	var payload []byte
	var err error
	value := new(big.Int)
	if units > 0 {
		payload, err = k.abi.Abi.Pack("delegate")
		unit, _ := new(big.Int).SetString("1000000000000000000000000", 10)
		value.Mul(unit, big.NewInt(units))
		k.Staked[delegator][val] = true
	} else {
		payload, err = k.abi.Abi.Pack("undelegate")
		delete(k.Staked[delegator], val)
	}
	if err != nil {
		return err
	}
	one := uint64(1)
	tx, err := types.SignTx(types.MakeSigner(k.s.G.Config, &one), types.NewTransaction(k.nonce[delegator], k.valSmc[val], value, 5000000, big.NewInt(1), payload), Key(100+delegator))
	if err != nil {
		return err
	}
	k.nonce[delegator]++
	for _, i := range k.s.Correct {
		if k.s.down(i) {
			continue
		}
		if err := k.s.Nodes[i].TxPool.AddLocal(tx); err != nil {
			return fmt.Errorf("tx pool of node %d refuses the staking transaction: %w", i, err)
		}
	}
	return nil
}
