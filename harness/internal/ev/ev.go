// Package ev is the evidence collector shared by every check.
//
// A check calls Case() once per generated case (with the canonical text of the
// drawn case and whether it is non-trivial by the property's stated rule),
// Violation() when the oracle fails, and Flush() from TestMain.  Everything the
// driver reports (evaluations, distinct non-trivial cases, class histogram,
// samples, excluded known findings, violations) is measured here.
package ev

import (
	"encoding/binary"
	"encoding/json"
	"fmt"
	"hash/fnv"
	"os"
	"runtime"
	"sort"
	"strconv"
	"strings"
	"sync"
	"time"
)

// TB is the part of *testing.T / *rapid.T the collector needs.
type TB interface {
	Fatalf(format string, args ...interface{})
	Helper()
}

type violation struct {
	Key  string `json:"key"`
	Msg  string `json:"msg"`
	Case string `json:"case,omitempty"`
}

type state struct {
	mu          sync.Mutex
	prop        string
	out         string
	start       time.Time
	evaluations int64
	hashes      map[uint64]struct{}
	capHit      bool
	classes     map[string]int64
	samples     map[string][]interface{}
	nsamples    int
	excluded    map[string]int64
	violations  []violation
	known       map[string]bool
	knownRepro  map[string]bool
	notes       map[string]interface{}
	exhaustive  bool
}

const hashCap = 1 << 21

var st = &state{
	hashes:     map[uint64]struct{}{},
	classes:    map[string]int64{},
	samples:    map[string][]interface{}{},
	excluded:   map[string]int64{},
	known:      map[string]bool{},
	knownRepro: map[string]bool{},
	notes:      map[string]interface{}{},
}

// Init must be called from TestMain before m.Run().
func Init(prop string) {
	st.prop = prop
	st.out = os.Getenv("VERIF_EV_OUT")
	st.start = time.Now()
	if k := os.Getenv("VERIF_KNOWN_KEYS"); k != "" {
		for _, key := range strings.Split(k, "\n") {
			key = strings.TrimSpace(key)
			if key != "" {
				st.known[key] = true
			}
		}
	}
}

// Tier returns "quick" or "thorough".
func Tier() string {
	if os.Getenv("VERIF_TIER") == "thorough" {
		return "thorough"
	}
	return "quick"
}

// Thorough reports whether the thorough tier is running.
func Thorough() bool { return Tier() == "thorough" }

// Seed returns the shard-specific seed derived by the driver from VERIF_SEED.
func Seed() int64 {
	s, _ := strconv.ParseInt(os.Getenv("VERIF_SHARD_SEED"), 10, 64)
	if s == 0 {
		s = 1
	}
	return s
}

// Scale returns an integer parameter from the environment (set by the driver
// from check.json), or def.
func Scale(name string, def int) int {
	if v := os.Getenv("VERIF_P_" + name); v != "" {
		if n, err := strconv.Atoi(v); err == nil {
			return n
		}
	}
	return def
}

func hash64(s string) uint64 {
	h := fnv.New64a()
	h.Write([]byte(s))
	return h.Sum64()
}

// Case records one executed case. canon is the canonical text of the drawn case
// (used only for distinctness); classes are generator-health labels.
func Case(nontrivial bool, canon string, classes ...string) {
	st.mu.Lock()
	defer st.mu.Unlock()
	st.evaluations++
	if nontrivial {
		if len(st.hashes) < hashCap {
			st.hashes[hash64(canon)] = struct{}{}
		} else {
			st.capHit = true
		}
		st.classes["nontrivial"]++
	}
	for _, c := range classes {
		st.classes[c]++
	}
}

// Count adds n to the evaluations counter without a distinctness record
// (used by exhaustive sub-enumerations that report their own totals).
func Count(n int64) {
	st.mu.Lock()
	st.evaluations += n
	st.mu.Unlock()
}

// Distinct records a non-trivial distinct item without counting an evaluation.
func Distinct(canon string) {
	st.mu.Lock()
	if len(st.hashes) < hashCap {
		st.hashes[hash64(canon)] = struct{}{}
	} else {
		st.capHit = true
	}
	st.mu.Unlock()
}

// Class bumps a label of the class histogram.
func Class(name string) { ClassN(name, 1) }

// ClassN adds n to a label of the class histogram.
func ClassN(name string, n int64) {
	st.mu.Lock()
	st.classes[name] += n
	st.mu.Unlock()
}

// Sample keeps up to three samples per class (and at most 24 in total).
func Sample(class string, v interface{}) {
	st.mu.Lock()
	defer st.mu.Unlock()
	if len(st.samples[class]) >= 3 || st.nsamples >= 24 {
		return
	}
	st.samples[class] = append(st.samples[class], v)
	st.nsamples++
}

// WantSample reports whether Sample(class, …) would still keep a value, so that
// callers can avoid building expensive descriptions.
func WantSample(class string) bool {
	st.mu.Lock()
	defer st.mu.Unlock()
	return len(st.samples[class]) < 3 && st.nsamples < 24
}

// Note stores an extra key in the coverage object.
func Note(key string, v interface{}) {
	st.mu.Lock()
	st.notes[key] = v
	st.mu.Unlock()
}

// Exhaustive marks that a finite sub-space was enumerated completely.
func Exhaustive() {
	st.mu.Lock()
	st.exhaustive = true
	st.mu.Unlock()
}

// Known reports whether key is listed as a known finding of this property.
func Known(key string) bool {
	st.mu.Lock()
	defer st.mu.Unlock()
	return st.known[key]
}

// Excluded counts a generated case that hit a listed known finding and was set
// aside so that the search can go on behind it.
func Excluded(key string) {
	st.mu.Lock()
	st.excluded[key]++
	st.mu.Unlock()
}

// KnownReproduced is called by the directed reproducer of a known finding.
func KnownReproduced(key string, reproduced bool) {
	st.mu.Lock()
	st.knownRepro[key] = reproduced
	st.mu.Unlock()
	if reproduced {
		fmt.Printf("VERIF-KNOWN-REPRODUCED key=%s\n", key)
	} else {
		fmt.Printf("VERIF-KNOWN-GONE key=%s\n", key)
	}
}

// Violation reports an oracle failure with a finding key. When the key is a
// listed known finding the case is counted under excluded_known and Violation
// returns true so the caller can abandon or continue the case; otherwise the
// violation is recorded and the test fails (rapid then shrinks and re-reports).
func Violation(t TB, key, caseText, format string, args ...interface{}) bool {
	t.Helper()
	if Known(key) {
		Excluded(key)
		return true
	}
	msg := fmt.Sprintf(format, args...)
	st.mu.Lock()
	st.violations = append(st.violations, violation{Key: key, Msg: msg, Case: trunc(caseText, 200000)})
	if len(st.violations) > 2000 { // shrinking re-reports; keep the tail
		st.violations = st.violations[len(st.violations)-1000:]
	}
	st.mu.Unlock()
	writeOut() // in case the process dies before Flush
	t.Fatalf("VERIF-VIOLATION key=%s %s", key, msg)
	return false
}

func trunc(s string, n int) string {
	if len(s) > n {
		return s[:n] + "…"
	}
	return s
}

const modPrefix = "github.com/kardiachain/go-kardia"

// productFrame returns the innermost go-kardia function on the current stack
// (to be called from a deferred function while panicking), or "".
func productFrame() string {
	pcs := make([]uintptr, 128)
	n := runtime.Callers(3, pcs)
	frames := runtime.CallersFrames(pcs[:n])
	for {
		f, more := frames.Next()
		if strings.HasPrefix(f.Function, modPrefix) {
			fn := strings.TrimPrefix(f.Function, modPrefix+"/")
			return fn
		}
		if strings.Contains(f.Function, "ev.Guard") || strings.Contains(f.Function, "ev.Try") {
			return ""
		}
		if !more {
			return ""
		}
	}
}

// Guard runs f. A panic whose stack contains a go-kardia frame (above Guard) is
// a violation with key "panic:<innermost go-kardia function>"; any other panic
// (rapid's own control flow, a harness bug) is re-raised unchanged.
func Guard(t TB, caseText func() string, f func()) {
	t.Helper()
	defer func() {
		if r := recover(); r != nil {
			fn := productFrame()
			if fn == "" {
				panic(r)
			}
			buf := make([]byte, 6000)
			buf = buf[:runtime.Stack(buf, false)]
			ct := ""
			if caseText != nil {
				ct = caseText()
			}
			Violation(t, "panic:"+fn, ct, "panic in product code: %v\n%s", r, buf)
		}
	}()
	f()
}

// Try runs f and returns a description of a product panic ("" if none).
// Non-product panics are re-raised.
func Try(f func()) (panicked string, frame string) {
	defer func() {
		if r := recover(); r != nil {
			fn := productFrame()
			if fn == "" {
				panic(r)
			}
			panicked = fmt.Sprint(r)
			frame = fn
		}
	}()
	f()
	return "", ""
}

type outFile struct {
	Property    string                   `json:"property_id"`
	Evaluations int64                    `json:"evaluations"`
	Distinct    int                      `json:"distinct"`
	CapHit      bool                     `json:"hash_cap_hit"`
	Classes     map[string]int64         `json:"classes"`
	Samples     map[string][]interface{} `json:"samples"`
	Excluded    map[string]int64         `json:"excluded_known"`
	Violations  []violation              `json:"violations"`
	KnownRepro  map[string]bool          `json:"known_reproduced"`
	Notes       map[string]interface{}   `json:"notes"`
	Exhaustive  bool                     `json:"exhaustive"`
	WallS       float64                  `json:"wall_s"`
}

func writeOut() {
	if st.out == "" {
		return
	}
	st.mu.Lock()
	defer st.mu.Unlock()
	o := outFile{
		Property: st.prop, Evaluations: st.evaluations, Distinct: len(st.hashes), CapHit: st.capHit,
		Classes: st.classes, Samples: st.samples, Excluded: st.excluded, KnownRepro: st.knownRepro,
		Notes: st.notes, Exhaustive: st.exhaustive, WallS: time.Since(st.start).Seconds(),
	}
	// keep only the last violation per key (the shrunk one comes last)
	last := map[string]violation{}
	var order []string
	for _, v := range st.violations {
		if _, ok := last[v.Key]; !ok {
			order = append(order, v.Key)
		}
		last[v.Key] = v
	}
	sort.Strings(order)
	for _, k := range order {
		o.Violations = append(o.Violations, last[k])
	}
	b, err := json.Marshal(o)
	if err != nil {
		fmt.Fprintf(os.Stderr, "ev: marshal: %v\n", err)
		return
	}
	tmp := st.out + ".tmp"
	if err := os.WriteFile(tmp, b, 0o644); err == nil {
		os.Rename(tmp, st.out)
	}
	hb := make([]byte, 0, 8*len(st.hashes))
	var w [8]byte
	for h := range st.hashes {
		binary.LittleEndian.PutUint64(w[:], h)
		hb = append(hb, w[:]...)
	}
	os.WriteFile(st.out+".hashes", hb, 0o644)
}

// Flush writes the shard's evidence file; call it from TestMain after m.Run().
func Flush() { writeOut() }

// Inflight records the case that is about to be executed, for targets that can
// kill the process (unrecoverable goroutine panic, out of memory).
func Inflight(text string) {
	p := os.Getenv("VERIF_INFLIGHT")
	if p == "" {
		return
	}
	os.WriteFile(p, []byte(text), 0o644)
}
