// C05 — crash recovery: a restart at any point is consistent and never double-signs.
package c05

import (
	"fmt"
	"math/big"
	"os"
	"runtime"
	"sort"
	"strings"
	"testing"
	"time"

	"pgregory.net/rapid"

	"github.com/kardiachain/go-kardia/consensus"
	"github.com/kardiachain/go-kardia/kai/kaidb/memorydb"
	"github.com/kardiachain/go-kardia/lib/common"
	"github.com/kardiachain/go-kardia/mainchain/blockchain"
	"github.com/kardiachain/go-kardia/types"

	"verifharness/internal/ev"
	"verifharness/internal/netsim"
)

func TestMain(m *testing.M) {
	ev.Init("C05")
	rc := m.Run()
	ev.Flush()
	os.Exit(rc)
}

type scenario struct {
	Powers   []int64
	Subject  int
	Cache    string // "archive" (flush every block) or "dirty" (keep recent state in memory)
	Heights  uint64 // base run length
	NilRound bool   // the proposal of height 2 round 1 is withheld, so that height needs two rounds
	MoreNil  int    // with NilRound: that many further rounds of height 2 fail the same way
	WithTxs  bool   // two signed transfers sit in every node's pool from the start, so the first blocks carry transactions
}

func (sc scenario) String() string {
	nr := fmt.Sprint(sc.NilRound)
	if sc.NilRound && sc.MoreNil > 0 {
		nr = fmt.Sprintf("true+%d", sc.MoreNil)
	}
	return fmt.Sprintf("powers=%v subject=%d cache=%s heights=%d nilround=%s txs=%v", sc.Powers, sc.Subject, sc.Cache, sc.Heights, nr, sc.WithTxs)
}

func cacheOf(mode string) *blockchain.CacheConfig {
	if mode == "archive" {
		return netsim.ArchiveCache()
	}
	return &blockchain.CacheConfig{TrieCleanLimit: 16, TrieDirtyLimit: 16, TrieDirtyDisabled: false, SnapshotLimit: 0}
}

// suffixTimeouts bounds the synchronous suffix: with four or five validators a round costs about a dozen timeouts, so
// this is more than a hundred rounds for three heights (the simulator's cost per round grows with the round number).
const suffixTimeouts = 1500

// stopFileWAL stops the product's file WAL of a node whose ConsensusState.Start did not get as far as stopping it
// itself (Start failed or panicked after opening the log): its group keeps a ticker goroutine that panics once the
// directory is gone.
func stopFileWAL(n *netsim.Node) {
	defer func() { recover() }()
	if w, ok := n.CS.VerifWAL().(*consensus.BaseWAL); ok && w.IsRunning() {
		if w.Stop() == nil {
			w.Wait()
		}
	}
}

type finding struct{ key, msg string }

// imageHook, if set, sees the surviving images of the first crash (copies) before the restart.
var imageHook func(s *netsim.Sim, sc scenario, db *memorydb.Database, wal []byte)

type outcome struct {
	ops      int // durable operations of the subject in the base run (after construction)
	crashed  bool
	window   string // after:<op> before:<op>
	phase    string
	findings []finding
	classes  []string
	detail   string
	phase2   string // second crash: how far the commit in progress in the restarted process had got
	window2  string // second crash: after:<op> before:<op> of the restarted process ("" = none happened)
	stage2   string // second crash: stage of the restart it fell into (construct / start / suffix)
}

type sigKey struct {
	kind string
	h    uint64
	r    uint32
}

// runCrash runs the scenario, kills the subject immediately before its durable operation number cut (counted after
// node construction), restarts it on the surviving images and runs a synchronous suffix. cut < 0: no crash.
func runCrash(sc scenario, cut int, tail string) outcome { return runCrash2(sc, cut, tail, -1, nil) }

// families returns the clause families (R1..R4) among the findings of a run.
func families(o outcome) map[string]bool {
	m := map[string]bool{}
	for _, f := range o.findings {
		if strings.HasPrefix(f.key, "clause=R") {
			m[f.key[7:9]] = true
		}
	}
	return m
}

// runCrash2 additionally kills the RESTARTED process immediately before ITS durable operation number cut2 (counted
// from the start of the restart: node construction, ConsensusState.Start with WAL catch-up, then the suffix) and
// restarts it once more on what survives ("crash during recovery"). cut2 < 0: no second crash. Callers use a second
// crash only where the first crash alone (single-crash run of the same case) recovers cleanly: the damage of a broken
// first recovery is permanent (a log one height ahead of the state, a genesis state under a longer block store) and
// shows up later under any clause, so it cannot be told apart from what the second crash adds. (inherited, if given,
// names clause families to leave out after the second restart.)
func runCrash2(sc scenario, cut int, tail string, cut2 int, inherited map[string]bool) (out outcome) {
	counter := &netsim.OpCounter{Cut: -1}
	mem := memorydb.New()
	wal := netsim.NewMemWAL(counter)
	opts := func(i int) netsim.NodeOpts {
		o := netsim.NodeOpts{Cache: cacheOf(sc.Cache)}
		if i == sc.Subject {
			o.DB = &netsim.RecDB{Database: mem, C: counter}
			o.WAL = wal
		}
		return o
	}
	s, err := netsim.NewSim(sc.Powers, nil, opts)
	if err != nil {
		out.findings = append(out.findings, finding{"harness", err.Error()})
		return
	}
	defer s.Close()
	if sc.WithTxs {
		for n := uint64(0); n < 2; n++ {
			tx, err := types.SignTx(types.HomesteadSigner{}, types.NewTransaction(n, common.BytesToAddress([]byte{0xc0, 0x05}), big.NewInt(1000), 40000, big.NewInt(1), nil), netsim.Key(100))
			if err != nil {
				out.findings = append(out.findings, finding{"harness", err.Error()})
				return
			}
			for _, i := range s.Correct {
				if err := s.Nodes[i].TxPool.AddLocal(tx); err != nil {
					out.findings = append(out.findings, finding{"harness", "AddLocal: " + err.Error()})
					return
				}
			}
		}
	}
	s.WriteWAL = true
	s.HaltOnDeath = true
	live := counter // the counter of the subject's current process
	s.Died = func(i int) bool { return i == sc.Subject && live.Dead }
	if sc.NilRound {
		s.Filter = func(to, from int, m consensus.Message) bool {
			p, ok := m.(*consensus.ProposalMessage)
			return ok && p.Proposal.Height == 2 && p.Proposal.Round >= 1 && p.Proposal.Round <= uint32(1+sc.MoreNil)
		}
	}
	// signatures: every request of a live process, and which of them became published (own message processed in a
	// completed step). epoch = number of restarts so far.
	epoch := 0
	type sigRec struct {
		netsim.SigRec
		epoch int
	}
	type pubRec struct {
		id    types.BlockID
		epoch int
	}
	var sigs []sigRec
	s.SigHook = func(node int, r netsim.SigRec) {
		if node == sc.Subject && epoch == 0 {
			sigs = append(sigs, sigRec{r, 0})
		}
	}
	published := map[sigKey]pubRec{}
	s.OwnDone = func(node int, m consensus.Message) {
		if node != sc.Subject || live.Dead {
			return
		}
		var k sigKey
		var id types.BlockID
		switch x := m.(type) {
		case *consensus.VoteMessage:
			kind := "prevote"
			if x.Vote.Type != 1 { // kproto.PrevoteType == 1
				kind = "precommit"
			}
			k, id = sigKey{kind, x.Vote.Height, x.Vote.Round}, x.Vote.BlockID
		case *consensus.ProposalMessage:
			k, id = sigKey{"proposal", x.Proposal.Height, x.Proposal.Round}, x.Proposal.POLBlockID
		default:
			return
		}
		if _, seen := published[k]; !seen { // the FIRST published message for that slot is what later ones must agree with
			published[k] = pubRec{id, epoch}
		}
	}
	// conflicts reports whether signature sg contradicts a message published by an EARLIER process of the subject
	conflicts := func(sg sigRec) (types.BlockID, bool) {
		p, okp := published[sigKey{sg.Kind, sg.Height, sg.Round}]
		return p.id, okp && p.epoch < sg.epoch && netsim.ExactKey(p.id) != netsim.ExactKey(sg.BlockID)
	}
	var imgDB *memorydb.Database
	var imgWAL []byte
	var unsyncedRecs int
	counter.OnCut = func() {
		imgDB = netsim.CopyMem(mem)
		_, unsyncedRecs = wal.Unsynced()
		imgWAL = wal.Image(tail)
	}
	base := counter.N
	if cut >= 0 {
		counter.Cut = base + cut
	}
	lastApplied := uint64(0) // highest state height the subject had completed in a finished step
	s.After = func() {
		s.RegisterFromNodes()
		if !live.Dead {
			lastApplied = s.Nodes[sc.Subject].CS.VerifState().LastBlockHeight
		}
	}
	subj := s.Nodes[sc.Subject]
	s.Start()
	msg, frame := ev.Try(func() { s.SyncRun(s.Correct, sc.Heights+1, 4000) })
	if msg != "" {
		out.findings = append(out.findings, finding{"base-run.panic:" + frame, msg})
		return
	}
	out.ops = counter.N - base
	if !counter.Dead || imgDB == nil {
		return
	}
	out.crashed = true
	prev := "START"
	if len(counter.Log) > 0 {
		prev = counter.Log[len(counter.Log)-1]
	}
	out.window = "after:" + prev + " before:" + counter.Next
	out.phase = netsim.Phase(counter.Log)
	// finding key: clause (+ cause for R3) + cache mode + how far the commit in progress had got. In keep-recent-state-in-
	// memory mode a restart rolls the node back independently of the phase, so R3 there is keyed without a phase.
	judged := 0 // which restart a finding is about (0: the current one)
	add := func(clause, format string, a ...interface{}) {
		e := epoch
		if judged > 0 {
			e = judged
		}
		if e > 1 && inherited[clause[:2]] {
			out.classes = append(out.classes, "second-crash:"+clause[:2]+"-already-broken-by-first-crash")
			return
		}
		phase := out.phase
		if e > 1 {
			phase = out.phase2 // how far the commit had got at the crash that preceded the process being judged
		}
		if (sc.Cache == "dirty" && strings.HasPrefix(clause, "R3")) || strings.HasPrefix(clause, "R3:other-proposal") || strings.HasPrefix(clause, "R4:stuck-after-own") || strings.HasPrefix(clause, "R1:start-blocks") {
			phase = "any" // causes that do not depend on how far the commit had got
		}
		if e > 1 {
			format = "[after the SECOND crash, window " + out.window2 + "] " + format
		}
		out.findings = append(out.findings, finding{fmt.Sprintf("clause=%s,cache=%s,phase=%s", clause, sc.Cache, phase), fmt.Sprintf(format, a...)})
	}
	if imageHook != nil {
		imageHook(s, sc, netsim.CopyMem(imgDB), append([]byte{}, imgWAL...))
	}
	preHeight := subj.CS.Height
	appliedAt := []uint64{0, lastApplied} // appliedAt[e] = what the subject had applied completely when process e-1 died
	var nn *netsim.Node
	var restartHeight uint64
	var restartFP string
	var dirs []string
	defer func() {
		for _, d := range dirs {
			os.RemoveAll(d)
		}
	}()
	var closers []*netsim.Node
	defer func() {
		for _, c := range closers {
			stopFileWAL(c) // before its directory is removed (deferred above, so it runs after this)
			c.Close()
		}
	}()
	var ok bool
	var why string
	goal := uint64(0)
	stage := ""
	closers = append(closers, subj) // replaced in s.Nodes below, so s.Close no longer reaches it
	for {
		// ---- restart on the surviving images, the way backend.go + ConsensusState.OnStart do
		epoch++
		myEpoch := epoch
		dir, err := os.MkdirTemp("", "c05-wal-")
		if err != nil {
			out.findings = append(out.findings, finding{"harness", err.Error()})
			return
		}
		dirs = append(dirs, dir)
		walPath, _ := netsim.MaterialiseWAL(dir, imgWAL)
		c := &netsim.OpCounter{Cut: -1}
		if epoch == 1 && cut2 >= 0 {
			c.Cut = cut2
		}
		live = c
		liveDB := imgDB
		var liveWAL *netsim.MemWAL // nil while the real file WAL of ConsensusState.Start is in use
		var nextDB *memorydb.Database
		var nextWAL []byte
		c.OnCut = func() {
			nextDB = netsim.CopyMem(liveDB)
			if liveWAL != nil {
				_, unsyncedRecs = liveWAL.Unsynced()
				nextWAL = liveWAL.Image(tail)
			} else {
				nextWAL, _ = os.ReadFile(walPath) // what the dying process had handed to the file system
			}
		}
		dead := func() bool { // the process died during this stage: its image is taken, go and restart on it
			if !c.Dead {
				return false
			}
			p := "START"
			if len(c.Log) > 0 {
				p = c.Log[len(c.Log)-1]
			}
			out.window2 = "after:" + p + " before:" + c.Next
			out.stage2 = stage
			out.phase2 = netsim.Phase(c.Log)
			if stage == "start" && out.phase2 == "block-saved" {
				// WAL operations of the real file WAL are not cut points: the next database operation after the block
				// save belongs to ApplyBlock, so the #ENDHEIGHT record is already synced at this cut
				out.phase2 = "endheight-synced"
			}
			appliedAt = append(appliedAt, lastApplied)
			return true
		}
		pv := &netsim.RecPV{PrivValidator: types.NewDefaultPrivValidator(s.Keys[sc.Subject]), OnSign: func(r netsim.SigRec) {
			if !c.Dead {
				sigs = append(sigs, sigRec{r, myEpoch})
			}
		}}
		stage = "construct"
		msg, frame = ev.Try(func() {
			nn, err = netsim.NewNode(sc.Subject, s.G, s.Keys[sc.Subject], netsim.NodeOpts{DB: &netsim.RecDB{Database: liveDB, C: c}, Cache: cacheOf(sc.Cache), PV: pv, RootDir: dir})
		})
		if nn != nil {
			closers = append(closers, nn)
		}
		if dead() {
			imgDB, imgWAL = nextDB, nextWAL
			continue
		}
		if msg != "" {
			add("R1", "restart panicked while building the node: %s (in %s)", msg, frame)
			return
		}
		if err != nil {
			add("R1", "restart failed: %v", err)
			return
		}
		// R2 (stores agree on one chain prefix), judged on the freshly opened stores
		storeH := nn.BOps.Height()
		stateH := nn.CS.VerifState().LastBlockHeight
		if storeH != stateH {
			add("R2", "after restart the block store is at %d and the consensus state at %d (no handshake brings them together)", storeH, stateH)
		}
		if _, err := nn.BC.StateAt(nn.BC.CurrentBlock().Height()); err != nil {
			add("R2", "after restart the application state of head block %d cannot be opened: %v", nn.BC.CurrentBlock().Height(), err)
		}
		if sc.Cache == "archive" && stateH < lastApplied {
			add("R2", "flush-every-block mode: restarted at state height %d although block %d had been applied completely before the crash", stateH, lastApplied)
		}
		for h := uint64(1); h <= storeH; h++ {
			b := nn.BOps.LoadBlock(h)
			for _, o := range s.Correct {
				if o == sc.Subject {
					continue
				}
				if ob := s.Nodes[o].BOps.LoadBlock(h); ob != nil && b != nil && ob.Hash() != b.Hash() {
					add("R2", "restarted store holds another block at height %d than node %d", h, o)
				}
			}
		}
		// real OnStart: opens the real WAL on the surviving file, catch-up replay, repair on corruption
		stage = "start"
		var startErr error
		msg, frame = ev.Try(func() { startErr = nn.StartReal() })
		if dead() {
			imgDB, imgWAL = nextDB, nextWAL
			continue
		}
		if msg != "" {
			add("R1", "ConsensusState.Start panicked on the surviving files: %s (in %s)", msg, frame)
			return
		}
		if nn.Tick.BeforeStart > consensus.VerifTickBuffer() {
			// the real ticker's ScheduleTimeout is a send on a channel with that buffer, and nobody receives from it before
			// Start() has launched the timeout routine: the send that exceeds the buffer blocks OnStart forever
			add("R1:start-blocks-on-ticker", "ConsensusState.Start scheduled %d timeouts during the WAL catch-up, before it started the timeout ticker; the ticker's channel buffers %d, so with the product's ticker OnStart blocks forever and the node never comes up", nn.Tick.BeforeStart, consensus.VerifTickBuffer())
		}
		if startErr != nil {
			add("R1", "ConsensusState.Start failed on the surviving files: %v", startErr)
			return
		}
		data, _ := os.ReadFile(walPath)
		liveWAL = netsim.NewMemWALFrom(data, c)
		nn.CS.VerifSetWAL(liveWAL)
		restartHeight = nn.CS.Height
		restartFP = netsim.Fingerprint(nn)
		s.Nodes[sc.Subject] = nn
		s.Down[sc.Subject] = false
		s.Halted = false
		// ---- synchronous suffix
		stage = "suffix"
		if goal == 0 {
			goal = s.MaxHeight(s.Correct) + 3
		}
		msg, frame = ev.Try(func() { ok, _, why = s.SyncRun(s.Correct, goal, suffixTimeouts) })
		if dead() {
			imgDB, imgWAL = nextDB, nextWAL
			goal = 0
			continue
		}
		break
	}
	ownConflict := false
	for _, sg := range sigs {
		if _, bad := conflicts(sg); bad {
			ownConflict = true
		}
	}
	if msg != "" {
		add("R4", "after the restart the network panicked: %s (in %s)", first(msg, 300), frame)
	} else if !ok && ownConflict {
		// the peers hold the vote it published before the crash, so its new, different vote for the same height/round/
		// type is refused everywhere (also by itself once its old vote has come back: "conflicting vote from ourselves")
		add("R4:stuck-after-own-conflicting-signature", "after the restart the network did not reach height %d and the restarted validator had signed against its own published message: %s", goal, first(why, 300))
	} else if !ok {
		dbg := " | still on offer: " + s.DescribeOffers(s.Correct)
		for _, i := range s.Correct {
			cs := s.Nodes[i].CS
			if cs.Height == s.MinHeight(s.Correct) {
				dbg += fmt.Sprintf(" | n%d prevotes(%d)=%s precommits=%s", i, cs.Round, cs.Votes.Prevotes(cs.Round).StringShort(), cs.Votes.Precommits(cs.Round).StringShort())
			}
		}
		add("R4", "after the restart the network did not reach height %d: %s%s", goal, first(why, 300), first(dbg, 1500))
	}
	// R3: no post-restart signature conflicts with a message published before the crash
	signedAfter := 0
	for _, sg := range sigs {
		if sg.epoch == 0 {
			continue
		}
		if sg.epoch == epoch {
			signedAfter++
		}
		if id, bad := conflicts(sg); bad {
			clause := "R3:resign-at-crash-height"
			if sg.Height <= appliedAt[sg.epoch] {
				clause = "R3:resign-at-rolled-back-height" // it had applied that block completely and came back below it
			}
			if sg.Kind == "proposal" {
				clause = "R3:other-proposal-after-restart" // same height/round, another block (its pool content is gone)
			}
			judged = sg.epoch
			add(clause, "after restart #%d it signed a %s at %d/%d for %s, an earlier process had published one for %s", sg.epoch, sg.Kind, sg.Height, sg.Round, short(sg.BlockID), short(id))
		}
	}
	judged = 0
	// R4: same chain, app hash and consensus state as a node that never crashed
	if msg == "" && ok {
		ref := s.Nodes[s.Correct[0]]
		if ref == nn {
			ref = s.Nodes[s.Correct[1]]
		}
		for h := uint64(1); h < goal; h++ {
			a, b := nn.BOps.LoadBlock(h), ref.BOps.LoadBlock(h)
			if a == nil || b == nil || a.Hash() != b.Hash() {
				add("R4", "after the suffix the restarted node's block %d differs from a never-crashed node's", h)
				break
			}
		}
		if nn.CS.Height == ref.CS.Height {
			sa, sb := nn.CS.VerifState(), ref.CS.VerifState()
			if !sa.AppHash.Equal(sb.AppHash) {
				add("R4", "app hash differs from a never-crashed node at height %d", sa.LastBlockHeight)
			}
			if d := valDiff(sa.Validators, sb.Validators); d != "" {
				add("R4-proposer-view", "validator set (priorities / proposer) differs from a never-crashed node at height %d: %s", sa.LastBlockHeight, d)
			}
		}
		if signedAfter == 0 {
			add("R4", "the restarted validator never signed anything during %d further heights", goal-restartHeight)
		}
	}
	out.detail = fmt.Sprintf("pre=%d restart=%d(%s) lastApplied=%d unsyncedRecs=%d wal=%d", preHeight, restartHeight, restartFP, lastApplied, unsyncedRecs, len(imgWAL))
	if out.phase != "deciding" && out.phase != "precommit-logged" {
		out.classes = append(out.classes, "cut-inside-commit")
	}
	if tail == "mid" && unsyncedRecs > 0 {
		out.classes = append(out.classes, "wal-tail-cut-mid-record")
	}
	if sc.WithTxs {
		out.classes = append(out.classes, "blocks-with-transactions")
	}
	if strings.Contains(out.window, "before:walsync[own-pre") {
		out.classes = append(out.classes, "cut-between-signature-and-wal-sync")
	}
	if epoch > 1 {
		out.classes = append(out.classes, "second-crash-during-"+out.stage2)
	}
	return
}

func first(s string, n int) string {
	if len(s) > n {
		return s[:n]
	}
	return s
}

func short(id types.BlockID) string {
	if id.IsZero() {
		return "nil"
	}
	return fmt.Sprintf("%x", id.Hash.Bytes()[:4])
}

func valDiff(a, b *types.ValidatorSet) string {
	if a == nil || b == nil {
		return ""
	}
	if a.Size() != b.Size() {
		return fmt.Sprintf("size %d vs %d", a.Size(), b.Size())
	}
	for i := range a.Validators {
		x, y := a.Validators[i], b.Validators[i]
		if x.Address != y.Address || x.VotingPower != y.VotingPower || x.ProposerPriority != y.ProposerPriority {
			return fmt.Sprintf("validator %d: %s/%d/%d vs %s/%d/%d", i, x.Address.Hex()[:8], x.VotingPower, x.ProposerPriority, y.Address.Hex()[:8], y.VotingPower, y.ProposerPriority)
		}
	}
	if a.GetProposer().Address != b.GetProposer().Address {
		return "proposer differs"
	}
	return ""
}

var tails = []string{"none", "all", "records:1", "mid"}

func report(t ev.TB, sc scenario, cut int, tail string, o outcome) { report2(t, sc, cut, tail, -1, o) }

func report2(t ev.TB, sc scenario, cut int, tail string, cut2 int, o outcome) {
	text := fmt.Sprintf("%s cut=%d tail=%s phase=%s window=%s %s", sc, cut, tail, o.phase, o.window, o.detail)
	if o.window2 != "" {
		text += fmt.Sprintf(" cut2=%d stage2=%s window2=%s", cut2, o.stage2, o.window2)
	}
	seen := map[string]bool{}
	for _, f := range o.findings {
		if seen[f.key] {
			continue
		}
		seen[f.key] = true
		if f.key == "harness" {
			t.Fatalf("harness: %s", f.msg)
		}
		ev.Violation(t, f.key, text, "%s", f.msg)
	}
	nontrivial := false
	for _, c := range o.classes {
		nontrivial = true
		_ = c
	}
	ev.Case(nontrivial, text, o.classes...)
	res := "ok"
	if len(o.findings) > 0 {
		var ks []string
		for k := range seen {
			ks = append(ks, k[:strings.Index(k, ",")])
		}
		sort.Strings(ks)
		res = strings.Join(ks, "+")
	}
	if o.crashed {
		ev.Class("outcome:" + sc.Cache + ":" + o.phase + " => " + res)
	}
	if nontrivial && ev.WantSample(sc.Cache) {
		ev.Sample(sc.Cache, text+" => "+res)
	}
}

func drawScenario(t *rapid.T) scenario {
	n := rapid.SampledFrom([]int{4, 4, 4, 5}).Draw(t, "n")
	powers := make([]int64, n)
	for i := range powers {
		powers[i] = int64(rapid.SampledFrom([]int{15, 15, 30}).Draw(t, "p"))
	}
	return scenario{Powers: powers, Subject: rapid.IntRange(0, n-1).Draw(t, "subject"), Cache: rapid.SampledFrom([]string{"archive", "dirty"}).Draw(t, "cache"),
		Heights: uint64(rapid.IntRange(2, 3).Draw(t, "heights")), NilRound: rapid.Bool().Draw(t, "nilround"), MoreNil: rapid.SampledFrom([]int{0, 0, 1, 3}).Draw(t, "morenil"), WithTxs: rapid.Bool().Draw(t, "txs")}
}

// TestCrashDrawn: crash points drawn by rapid over drawn scenarios (quick tier).
func TestCrashDrawn(t *testing.T) {
	opsCache := map[string]int{}
	rapid.Check(t, func(t *rapid.T) {
		sc := drawScenario(t)
		n, ok := opsCache[sc.String()]
		if !ok {
			n = runCrash(sc, -1, "none").ops
			opsCache[sc.String()] = n
		}
		if n <= 0 {
			t.Fatalf("harness: base run has no durable operations")
		}
		cut := rapid.IntRange(0, n-1).Draw(t, "cut")
		tail := rapid.SampledFrom(tails).Draw(t, "tail")
		cut2 := -1
		if rapid.Bool().Draw(t, "second-crash") {
			// recovery (construction + Start with catch-up) is 0-25 operations, one further height about 15 more
			cut2 = rapid.IntRange(0, 60).Draw(t, "cut2")
		}
		o := runCrash(sc, cut, tail)
		report(t, sc, cut, tail, o)
		if cut2 >= 0 && o.crashed {
			if len(o.findings) > 0 {
				// the first recovery is already broken at this crash point (reported above): what a second crash adds to a
				// damaged node cannot be told apart from the damage, so second crashes are judged on clean recoveries only
				ev.Class("second-crash-skipped:first-recovery-already-broken")
			} else if o2 := runCrash2(sc, cut, tail, cut2, nil); o2.window2 != "" {
				report2(t, sc, cut, tail, cut2, o2)
			}
		}
	})
}

// TestKnownWindows: every crash point of one base run per cache mode (unsynced WAL tail lost). Deterministic; this is
// where the listed known findings are reproduced on every run, and it doubles as a small exhaustive tier for quick.
func TestKnownWindows(t *testing.T) {
	for _, sc := range []scenario{
		{Powers: []int64{15, 15, 15, 15}, Subject: 0, Cache: "archive", Heights: 3},
		{Powers: []int64{15, 15, 15, 15}, Subject: 0, Cache: "dirty", Heights: 3},
		{Powers: []int64{15, 15, 15, 15}, Subject: 1, Cache: "archive", Heights: 2, WithTxs: true},
	} {
		n := runCrash(sc, -1, "none").ops
		if n <= 0 {
			t.Fatalf("harness: base run has no durable operations")
		}
		for cut := 0; cut < n; cut++ {
			report(t, sc, cut, "none", runCrash(sc, cut, "none"))
		}
	}
	ev.Exhaustive()
}

// TestCrashEnum: ALL crash points of a few base runs in both cache modes (thorough tier; shards split the points).
func TestCrashEnum(t *testing.T) {
	shard, shards := ev.Scale("SHARD", 0), ev.Scale("SHARDS", 1)
	if v := os.Getenv("VERIF_SHARD"); v != "" {
		fmt.Sscanf(v, "%d", &shard)
		fmt.Sscanf(os.Getenv("VERIF_SHARDS"), "%d", &shards)
	}
	var scs []scenario
	for _, cache := range []string{"archive", "dirty"} {
		for _, nr := range []bool{false, true} {
			for subj := 0; subj < ev.Scale("SUBJECTS", 2); subj++ {
				scs = append(scs, scenario{Powers: []int64{15, 15, 15, 15}, Subject: subj * 2, Cache: cache, Heights: 3, NilRound: nr, WithTxs: subj == 1})
			}
		}
	}
	idx := 0
	for _, sc := range scs {
		n := runCrash(sc, -1, "none").ops
		for cut := 0; cut < n; cut++ {
			for _, tail := range []string{"none", "all"} {
				idx++
				if idx%shards != shard {
					continue
				}
				o := runCrash(sc, cut, tail)
				report(t, sc, cut, tail, o)
			}
		}
	}
	ev.Exhaustive()
	ev.Note("enumeration", "every durable operation of the listed base runs x wal tails {none, all}")
}

// TestSecondCrashEnum: crash during recovery, enumerated. For every first crash point of two base runs (one per cache
// mode; WAL tail lost) the restarted process is killed before each of its first durable operations (node construction,
// ConsensusState.Start with WAL catch-up, and the first operations of the suffix) and restarted again.
func TestSecondCrashEnum(t *testing.T) {
	shard, shards := 0, 1
	if v := os.Getenv("VERIF_SHARD"); v != "" {
		fmt.Sscanf(v, "%d", &shard)
		fmt.Sscanf(os.Getenv("VERIF_SHARDS"), "%d", &shards)
	}
	depth := ev.Scale("SECOND_DEPTH", 24)
	stride := ev.Scale("FIRST_STRIDE", 1)
	idx := 0
	for _, sc := range []scenario{
		{Powers: []int64{15, 15, 15, 15}, Subject: 0, Cache: "archive", Heights: 2, WithTxs: true},
		{Powers: []int64{15, 15, 15, 15}, Subject: 2, Cache: "dirty", Heights: 2},
	} {
		n := runCrash(sc, -1, "none").ops
		for cut := 0; cut < n; cut += stride {
			// WAL tail lost / kept: with the unsynced tail kept the catch-up inside Start can reach the commit again, which
			// puts database operations (= cut points) into the Start stage
			for _, tail := range []string{"none", "all"} {
				idx++
				if idx%shards != shard {
					continue
				}
				o := runCrash(sc, cut, tail)
				if !o.crashed {
					continue
				}
				if len(o.findings) > 0 {
					ev.Class("second-crash-skipped:first-recovery-already-broken") // see TestCrashDrawn
					continue
				}
				for cut2 := 0; cut2 < depth; cut2++ {
					o2 := runCrash2(sc, cut, tail, cut2, nil)
					if o2.window2 == "" {
						break // the restarted process performs fewer operations than that
					}
					report2(t, sc, cut, tail, cut2, o2)
				}
			}
		}
	}
	ev.Note("second-crash enumeration", fmt.Sprintf("every first crash point (stride %d) of two base runs x wal tails {none, all} x the first %d durable operations of the restarted process", stride, depth))
}

// TestRestartRealTicker: the same restart with the PRODUCT's timeout ticker (real timers) instead of the harness-owned
// one, on the images of a height that has already needed several rounds. The WAL catch-up schedules a timeout at every
// replayed step change; ConsensusState.Start must come back. (Regression test of a repaired defect: the ticker was
// started after the catch-up and its channel buffers ten requests.)
func TestRestartRealTicker(t *testing.T) {
	const key = "clause=R1:start-blocks-on-ticker,cache=archive,phase=any"
	reproduced := false
	for _, more := range []int{0, 2, 4} {
		sc := scenario{Powers: []int64{15, 15, 15, 15}, Subject: 0, Cache: "archive", Heights: 2, NilRound: true, MoreNil: more}
		n := runCrash(sc, -1, "none").ops
		for _, back := range []int{8, 20} {
			cut := n - back
			text := fmt.Sprintf("%s cut=%d tail=all, restart with the product's ticker", sc, cut)
			hung, inconclusive := "", false
			imageHook = func(s *netsim.Sim, sc scenario, db *memorydb.Database, wal []byte) {
				dir, err := os.MkdirTemp("", "c05-rt-")
				if err != nil {
					t.Fatalf("harness: %v", err)
				}
				defer os.RemoveAll(dir)
				netsim.MaterialiseWAL(dir, wal)
				nn, err := netsim.NewNode(sc.Subject, s.G, s.Keys[sc.Subject], netsim.NodeOpts{DB: db, Cache: cacheOf(sc.Cache), RootDir: dir, RealTicker: true})
				if err != nil {
					return // judged by the main restart path (R1)
				}
				defer nn.Close()
				defer stopFileWAL(nn)
				done := make(chan error, 1)
				go func() { done <- nn.CS.Start() }()
				select {
				case <-done:
					nn.CS.Stop()
					nn.CS.VerifWaitDone()
				case <-time.After(time.Duration(ev.Scale("START_WAIT_S", 60)) * time.Second):
					// only a goroutine parked in the ticker's channel send is a hang; anything else is a slow machine
					buf := make([]byte, 4<<20)
					inconclusive = true
					for _, g := range strings.Split(string(buf[:runtime.Stack(buf, true)]), "\n\n") {
						if strings.Contains(g, "[chan send") && strings.Contains(g, "timeoutTicker).ScheduleTimeout") && strings.Contains(g, "ConsensusState).OnStart") {
							hung, inconclusive = first(g, 1200), false
						}
					}
				}
			}
			runCrash(sc, cut, "all")
			imageHook = nil
			if inconclusive {
				// Start has not returned yet but is not parked in the ticker either: a starved machine, no verdict
				ev.Class("restart-with-product-ticker:inconclusive-slow")
			}
			if hung != "" {
				reproduced = true
				ev.Violation(t, key, text, "ConsensusState.Start never returns: OnStart is parked in the ticker's channel send during the WAL catch-up\n%s", hung)
			}
			ev.Case(more > 0, text, "restart-with-product-ticker")
		}
	}
	if ev.Known(key) {
		ev.KnownReproduced(key, reproduced)
	}
}
