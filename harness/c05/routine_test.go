package c05

import (
	"fmt"
	"io"
	"math/big"
	"sync"
	"testing"
	"time"

	"pgregory.net/rapid"

	"github.com/kardiachain/go-kardia/consensus"
	"github.com/kardiachain/go-kardia/types"

	"verifharness/internal/ev"
	"verifharness/internal/netsim"
)

// recWAL records, in order, what the consensus state writes to its log and how (Write / WriteSync).
type recWAL struct {
	mu     sync.Mutex
	inner  *netsim.MemWAL
	synced map[string]bool // signatures of own votes that have been written WITH sync
	plain  map[string]bool // ... written without
	nSync  int
}

func (w *recWAL) note(m consensus.WALMessage, sync bool) {
	mi, ok := m.(consensus.VerifMsgInfo)
	if !ok || mi.PeerID != "" {
		return
	}
	if vm, ok := mi.Msg.(*consensus.VoteMessage); ok {
		w.mu.Lock()
		if sync {
			w.synced[string(vm.Vote.Signature)] = true
			w.nSync++
		} else {
			w.plain[string(vm.Vote.Signature)] = true
		}
		w.mu.Unlock()
	}
}
func (w *recWAL) Write(m consensus.WALMessage) error { w.note(m, false); return w.inner.Write(m) }
func (w *recWAL) WriteSync(m consensus.WALMessage) error {
	w.note(m, true)
	return w.inner.WriteSync(m)
}
func (w *recWAL) FlushAndSync() error { return w.inner.FlushAndSync() }
func (w *recWAL) SearchForEndHeight(h int64, o *consensus.WALSearchOptions) (io.ReadCloser, bool, error) {
	return w.inner.SearchForEndHeight(h, o)
}
func (w *recWAL) Start() error { return nil }
func (w *recWAL) Stop() error  { return nil }
func (w *recWAL) Wait()        {}

// TestRealRoutine: everything else in this check drives handleMsg itself and mirrors receiveRoutine's log discipline;
// here the product's own receive routine and timeout ticker run (a validator that holds all the power, real
// millisecond timers), with a recording log. Obligation behind "never signs a conflicting vote after a crash": an own
// vote is in the log, synced, BEFORE the state machine has added it (from which moment the reactor announces and
// gossips it). Generated: number of heights, transactions in the pool or not.
func TestRealRoutine(t *testing.T) {
	rapid.Check(t, func(t *rapid.T) {
		heights := uint64(rapid.IntRange(2, 4).Draw(t, "heights"))
		withTxs := rapid.Bool().Draw(t, "txs")
		text := fmt.Sprintf("single validator, real receive routine and ticker, %d heights, txs=%v", heights, withTxs)
		g, keys := netsim.MakeGenesis([]int64{15}, 2)
		rec := &recWAL{inner: netsim.NewMemWAL(nil), synced: map[string]bool{}, plain: map[string]bool{}}
		nd, err := netsim.NewNode(0, g, keys[0], netsim.NodeOpts{Cache: netsim.ArchiveCache(), WAL: rec, RealTicker: true})
		if err != nil {
			t.Fatalf("harness: %v", err)
		}
		defer nd.Close()
		if withTxs {
			sc := scenario{WithTxs: true}
			_ = sc
			for n := uint64(0); n < 2; n++ {
				tx, err := types.SignTx(types.HomesteadSigner{}, types.NewTransaction(n, nd.Addr, bigOne(), 40000, bigOne(), nil), netsim.Key(100))
				if err == nil {
					_ = nd.TxPool.AddLocal(tx)
				}
			}
		}
		own := nd.Addr
		var mu sync.Mutex
		var early []string
		seen := 0
		nd.CS.VerifOnVote("verif-c05", func(v *types.Vote) {
			if v.ValidatorAddress != own {
				return
			}
			rec.mu.Lock()
			ok := rec.synced[string(v.Signature)]
			unsynced := rec.plain[string(v.Signature)]
			rec.mu.Unlock()
			mu.Lock()
			seen++
			if !ok {
				how := "not written to the log at all"
				if unsynced {
					how = "written WITHOUT sync"
				}
				early = append(early, fmt.Sprintf("own vote type=%d at %d/%d was added by the state machine while it was %s", v.Type, v.Height, v.Round, how))
			}
			mu.Unlock()
		})
		msg, frame := ev.Try(func() { err = nd.CS.Start() })
		if msg != "" {
			ev.Violation(t, "panic:"+frame, text, "ConsensusState.Start panicked: %s", msg)
			return
		}
		if err != nil {
			t.Fatalf("harness: Start: %v", err)
		}
		deadline := time.Now().Add(time.Duration(ev.Scale("ROUTINE_WAIT_S", 60)) * time.Second)
		for nd.BOps.Height() < heights && time.Now().Before(deadline) {
			time.Sleep(5 * time.Millisecond)
		}
		reached := nd.BOps.Height()
		nd.CS.Stop()
		nd.CS.VerifWaitDone()
		if reached < heights {
			// liveness is not this test's oracle and real timers on a starved machine are slow: judge what was observed
			ev.Class("real-routine:target-height-not-reached-in-time")
		}
		mu.Lock()
		defer mu.Unlock()
		if len(early) > 0 {
			ev.Violation(t, "routine.own-vote-visible-before-wal-sync", text, "%s (%d such votes)", early[0], len(early))
		}
		if seen == 0 {
			ev.Class("real-routine:no-own-vote-observed")
			return
		}
		ev.Case(seen >= 4, fmt.Sprintf("%s: %d own votes observed, %d synced writes", text, seen, rec.nSync), "real-routine")
	})
}

func bigOne() *big.Int { return big.NewInt(1) }
