// C02 — quorum certificates are sound (and complete): "+2/3" means strictly more than two thirds.
//
// Shared infrastructure of the check: deterministic keys, a signing cache (votes are pre-signed with go-ethereum's
// libsecp256k1 signer, not with go-kardia's), the independent signature oracle (go-ethereum Ecrecover over the
// product's public VoteSignBytes), the independent tally, and the generators for validator sets and block ids.
package c02

import (
	"crypto/ecdsa"
	"fmt"
	"math/big"
	"os"
	"sort"
	"strings"
	"testing"
	"time"

	gcrypto "github.com/ethereum/go-ethereum/crypto"
	"pgregory.net/rapid"

	"github.com/kardiachain/go-kardia/lib/common"
	"github.com/kardiachain/go-kardia/lib/p2p"
	kproto "github.com/kardiachain/go-kardia/proto/kardiachain/types"
	"github.com/kardiachain/go-kardia/types"

	"verifharness/internal/ev"
)

func TestMain(m *testing.M) {
	ev.Init("C02")
	rc := m.Run()
	ev.Flush()
	os.Exit(rc)
}

// finding keys (one per oracle clause; a different way of breaking the property gets a different key)
const (
	keyD7              = "tally.blockid-key-omits-total"       // fixed in /repo c573e3e (D7)
	keyMajNoQuorum     = "tally.majority-without-quorum"       // TwoThirdsMajority reported, exact id not signed by >2/3
	keyMajMissed       = "tally.first-vote-quorum-not-reported" // >2/3 first votes for one id, nothing reported
	keyAnyMismatch     = "tally.two-thirds-any-mismatch"       // HasTwoThirdsAny <=> distinct voters > 2/3
	keyAllMismatch     = "tally.has-all-mismatch"              // HasAll <=> every validator voted
	keyReportsDisagree = "tally.majority-reports-disagree"     // HasTwoThirdsMajority / IsCommit vs TwoThirdsMajority
	keyInvalidAdded    = "addvote.invalid-vote-added"          // a vote that is not valid for this step was added
	keyValidRefused    = "addvote.valid-first-vote-refused"    // a validator's first valid vote was not added
	keyMakeRejected    = "commit.makecommit-rejected"          // MakeCommit output rejected by VerifyCommit (same set)
	keyMakeNoQuorum    = "commit.makecommit-not-a-quorum"      // MakeCommit output fails the independent predicate
	keyToVoteSet       = "commit.to-voteset-loses-majority"    // CommitToVoteSet(MakeCommit) does not report the majority
	keyAcceptNoQuorum  = "verifycommit.accepts-without-quorum" // VerifyCommit accepted, independent predicate false
	keyAcceptNil       = "verifycommit.counts-nil-or-absent"   // … because nil/absent entries were counted
	keyAcceptBoundary  = "verifycommit.threshold-off-by-one"   // … at exactly two thirds
	keyRejectQuorum    = "verifycommit.rejects-valid-quorum"   // well-formed commit with a quorum rejected
	keyHvsMissed       = "hvs.first-vote-quorum-not-reported"
	keyHvsPol          = "hvs.polinfo-unsound"
	keyHvsPolMissed    = "hvs.polinfo-misses-majority"
)

// ---------------------------------------------------------------- keys and signatures

const (
	chainID    = "verif-c02"
	otherChain = "verif-c02-b"
	nKeys      = 12
)

var (
	keys     []*ecdsa.PrivateKey
	keyAddrs []common.Address
	curveN   = gcrypto.S256().Params().N
	halfN    = new(big.Int).Rsh(gcrypto.S256().Params().N, 1)
)

func init() {
	for i := 0; i < nKeys; i++ {
		k, err := gcrypto.ToECDSA(gcrypto.Keccak256([]byte(fmt.Sprintf("verif-c02-key-%d", i))))
		if err != nil {
			panic(err)
		}
		keys = append(keys, k)
		ga := gcrypto.PubkeyToAddress(k.PublicKey)
		keyAddrs = append(keyAddrs, common.BytesToAddress(ga[:]))
	}
}

var (
	baseTS = time.Unix(1600000000, 0).UTC()
	lateTS = time.Unix(1600000001, 500).UTC()
)

// signHash returns keccak(VoteSignBytes) of a vote with these signed fields. The canonical encoding itself is the
// product's public function (its field binding is the subject of C11, D1 included: the type is not part of it).
func signHash(chain string, typ kproto.SignedMsgType, h uint64, r uint32, id types.BlockID, ts time.Time) []byte {
	pv := &kproto.Vote{
		Type:   typ,
		Height: h,
		Round:  r,
		BlockID: kproto.BlockID{
			Hash:          id.Hash.Bytes(),
			PartSetHeader: kproto.PartSetHeader{Total: id.PartsHeader.Total, Hash: id.PartsHeader.Hash.Bytes()},
		},
		Timestamp: ts,
	}
	return gcrypto.Keccak256(types.VoteSignBytes(chain, pv))
}

var sigCache = map[string][]byte{}

// sign returns the (cached) canonical signature of key k over hash, made with go-ethereum's signer.
func sign(k int, hash []byte) []byte {
	ck := string(append([]byte{byte(k)}, hash...))
	if s, ok := sigCache[ck]; ok {
		return append([]byte(nil), s...)
	}
	s, err := gcrypto.Sign(hash, keys[k])
	if err != nil {
		panic(err)
	}
	sigCache[ck] = s
	return append([]byte(nil), s...)
}

var recCache = map[string]common.Address{}

// recoverAddr: go-ethereum (libsecp256k1) public key recovery; ok=false when the 65-byte string is not a signature.
func recoverAddr(hash, sig65 []byte) (common.Address, bool) {
	ck := string(hash) + string(sig65)
	if a, ok := recCache[ck]; ok {
		return a, a != (common.Address{})
	}
	var a common.Address
	if pub, err := gcrypto.Ecrecover(hash, sig65); err == nil && len(pub) == 65 {
		a = common.BytesToAddress(gcrypto.Keccak256(pub[1:])[12:])
	}
	if len(recCache) < 1<<18 {
		recCache[ck] = a
	}
	return a, a != (common.Address{})
}

// sigStrict: sig is the canonical encoding of a signature by addr over hash: 65 bytes, recovery id 0/1, low s.
// Only such signatures OBLIGE the implementation (completeness clauses): it is what an honest validator sends.
func sigStrict(addr common.Address, hash, sig []byte) bool {
	if len(sig) != 65 || sig[64] > 1 {
		return false
	}
	if new(big.Int).SetBytes(sig[32:64]).Cmp(halfN) > 0 {
		return false
	}
	a, ok := recoverAddr(hash, sig)
	return ok && a == addr
}

// sigLenient: the first 64 bytes (r, s) are an ECDSA signature by addr over hash under SOME recovery id, whatever the
// encoding of the rest. This is the widest reading of "validly signed" (the holder of the key did sign this content)
// and is what the soundness clauses use, so that lenient parsing of the recovery byte, of trailing bytes or of high-s
// values by the implementation (not this property's business) can never raise an alarm here.
func sigLenient(addr common.Address, hash, sig []byte) bool {
	if len(sig) < 64 {
		return false
	}
	buf := make([]byte, 65)
	copy(buf, sig[:64])
	for v := byte(0); v < 4; v++ {
		buf[64] = v
		if a, ok := recoverAddr(hash, buf); ok && a == addr {
			return true
		}
	}
	return false
}

// ---------------------------------------------------------------- block ids built to collide

type namedID struct {
	name string
	id   types.BlockID
}

// nil + 2 hashes × 2 part-set hashes × 2 totals: every non-nil id has neighbours that differ from it in exactly one field.
var idPool = func() []namedID {
	p := []namedID{{"nil", types.BlockID{}}}
	for _, h := range []byte{1, 2} {
		for _, ph := range []byte{1, 2} {
			for _, tot := range []uint32{1, 2} {
				p = append(p, namedID{fmt.Sprintf("h%dp%dt%d", h, ph, tot), types.BlockID{
					Hash:        common.BytesToHash([]byte{0xb0, h}),
					PartsHeader: types.PartSetHeader{Total: tot, Hash: common.BytesToHash([]byte{0xa0, ph})},
				}})
			}
		}
	}
	return p
}()

// exact is the oracle's own identity of a block id: all three fields.
func exact(b types.BlockID) string {
	return fmt.Sprintf("%x/%x/%d", b.Hash[:], b.PartsHeader.Hash[:], b.PartsHeader.Total)
}

func idName(b types.BlockID) string {
	e := exact(b)
	for _, n := range idPool {
		if exact(n.id) == e {
			return n.name
		}
	}
	return e
}

func isNilID(b types.BlockID) bool { return exact(b) == exact(types.BlockID{}) }

// genID draws a block id: mostly the case's main id, often one of its one-field neighbours, sometimes nil/any.
func genID(t *rapid.T, main int, label string) namedID {
	switch w := rapid.IntRange(0, 19).Draw(t, label); {
	case w < 10:
		return idPool[main]
	case w < 12:
		return idPool[0]
	case w < 16: // neighbour: flip one of the three fields of main (main is 1..8: index-1 = h*4+ph*2+tot)
		bit := 1 << uint(rapid.IntRange(0, 2).Draw(t, label+"-field"))
		return idPool[1+((main-1)^bit)]
	default:
		return idPool[rapid.IntRange(0, len(idPool)-1).Draw(t, label+"-any")]
	}
}

// ---------------------------------------------------------------- validator sets

type valInfo struct {
	key   int // index into keys
	addr  common.Address
	power int64
}

type valSet struct {
	set   *types.ValidatorSet
	vals  []valInfo // in the set's index order
	total *big.Int
	maxP  int64
	desc  string
	class string
}

func (s *valSet) n() int { return len(s.vals) }

// quorum: strictly more than two thirds of the total, in big integers.
func (s *valSet) quorum(p *big.Int) bool {
	l := new(big.Int).Mul(p, big.NewInt(3))
	r := new(big.Int).Mul(s.total, big.NewInt(2))
	return l.Cmp(r) > 0
}

func (s *valSet) exactlyTwoThirds(p *big.Int) bool {
	l := new(big.Int).Mul(p, big.NewInt(3))
	r := new(big.Int).Mul(s.total, big.NewInt(2))
	return l.Cmp(r) == 0
}

func (s *valSet) powerOf(idx map[int]bool) *big.Int {
	p := new(big.Int)
	for i := range idx {
		p.Add(p, big.NewInt(s.vals[i].power))
	}
	return p
}

// buildValSet makes the product's set from (key, power) pairs and reads back the index order it chose.
func buildValSet(ks []int, powers []int64, class string) *valSet {
	vs := make([]*types.Validator, len(ks))
	byAddr := map[common.Address]int{}
	for i, k := range ks {
		vs[i] = types.NewValidator(keyAddrs[k], powers[i])
		byAddr[keyAddrs[k]] = k
	}
	set := types.NewValidatorSet(vs)
	out := &valSet{set: set, total: new(big.Int), class: class}
	var d []string
	for i := 0; i < set.Size(); i++ {
		addr, v := set.GetByIndex(uint32(i))
		out.vals = append(out.vals, valInfo{key: byAddr[addr], addr: addr, power: v.VotingPower})
		out.total.Add(out.total, big.NewInt(v.VotingPower))
		if v.VotingPower > out.maxP {
			out.maxP = v.VotingPower
		}
		d = append(d, fmt.Sprintf("k%d=%d", byAddr[addr], v.VotingPower))
	}
	out.desc = "vals[" + strings.Join(d, ",") + "]"
	return out
}

// genValSet: 1–8 validators with powers 1…5 (a third of them forced to a total divisible by 3), or near-cap sets:
// MaxTotalVotingPower (= 2^60-1, itself divisible by 3) split over 2–3 validators, optionally minus a little and with dust.
func genValSet(t *rapid.T) *valSet {
	perm := rapid.Permutation([]int{0, 1, 2, 3, 4, 5, 6, 7, 8, 9, 10, 11}).Draw(t, "keys")
	if rapid.IntRange(0, 5).Draw(t, "capset") == 5 {
		max := types.MaxTotalVotingPower
		third := max / 3
		var big3 []int64
		switch rapid.IntRange(0, 5).Draw(t, "split") {
		case 0:
			big3 = []int64{third, third, max - 2*third}
		case 1:
			big3 = []int64{third + 1, third, third - 1}
		case 2:
			big3 = []int64{2 * third, max - 2*third} // first validator holds exactly 2/3
		case 3:
			big3 = []int64{2*third + 1, max - 2*third - 1} // first validator alone is a quorum
		case 4:
			big3 = []int64{max / 2, max - max/2}
		default:
			big3 = []int64{third - 1, third - 1, third + 2}
		}
		dust := rapid.IntRange(0, 2).Draw(t, "dust")
		slack := int64(rapid.IntRange(0, 3).Draw(t, "slack"))
		powers := append([]int64(nil), big3...)
		powers[0] -= slack
		for i := 0; i < dust; i++ {
			d := int64(rapid.IntRange(1, 3).Draw(t, "dustpow"))
			powers[len(big3)-1] -= d
			powers = append(powers, d)
		}
		return buildValSet(perm[:len(powers)], powers, "valset:near-cap")
	}
	n := rapid.IntRange(1, 8).Draw(t, "n")
	powers := make([]int64, n)
	sum := int64(0)
	for i := range powers {
		powers[i] = int64(rapid.IntRange(1, 5).Draw(t, "pow"))
		sum += powers[i]
	}
	class := "valset:small"
	if rapid.IntRange(0, 2).Draw(t, "div3") == 0 && sum%3 != 0 {
		// re-pick the last power so that the total is a multiple of 3 (1..5 covers every residue)
		sum -= powers[n-1]
		p := (3 - sum%3) % 3
		if p == 0 {
			p = 3
		}
		powers[n-1] = p
		sum += p
	}
	if sum%3 == 0 {
		class = "valset:total-div-3"
	}
	return buildValSet(perm[:n], powers, class)
}

// ---------------------------------------------------------------- the independent tally of one (height, round, type) step

type tally struct {
	vs    *valSet
	chain string
	h     uint64
	r     uint32
	typ   kproto.SignedMsgType

	signed  []map[string]bool // validator -> exact ids it signed (lenient reading); basis of every soundness clause
	first   []string          // validator -> exact id of its first delivered strictly valid vote ("" none)
	tainted []bool            // an ambiguously encoded but genuine signature arrived before any strict vote: first vote unknown
	ids     map[string]types.BlockID
}

func newTally(vs *valSet, chain string, h uint64, r uint32, typ kproto.SignedMsgType) *tally {
	m := &tally{vs: vs, chain: chain, h: h, r: r, typ: typ, ids: map[string]types.BlockID{}}
	m.signed = make([]map[string]bool, vs.n())
	for i := range m.signed {
		m.signed[i] = map[string]bool{}
	}
	m.first = make([]string, vs.n())
	m.tainted = make([]bool, vs.n())
	return m
}

type verdict int

const (
	vInvalid   verdict = iota // not a valid vote of this step: must not be counted
	vAmbiguous                // genuine (r,s) in a non-canonical encoding: may be counted, need not be
	vValid                    // canonical valid vote: obliges the implementation
)

// judge decides, independently of the product's verifier, whether v is a valid vote of this step.
func (m *tally) judge(v *types.Vote) verdict {
	if v.Height != m.h || v.Round != m.r || v.Type != m.typ {
		return vInvalid
	}
	if int64(v.ValidatorIndex) >= int64(m.vs.n()) {
		return vInvalid
	}
	val := m.vs.vals[v.ValidatorIndex]
	if v.ValidatorAddress != val.addr {
		return vInvalid
	}
	hash := signHash(m.chain, v.Type, v.Height, v.Round, v.BlockID, v.Timestamp)
	if sigStrict(val.addr, hash, v.Signature) {
		return vValid
	}
	if sigLenient(val.addr, hash, v.Signature) {
		return vAmbiguous
	}
	return vInvalid
}

// offer records a vote that was offered to the vote set. delivered=false: the vote never reached the set (HeightVoteSet
// refused the round); it still counts for soundness (superset) but creates no obligation.
// Returns the verdict and whether it is this validator's first strictly valid delivered vote.
func (m *tally) offer(v *types.Vote, delivered bool) (verdict, bool) {
	vd := m.judge(v)
	if vd == vInvalid {
		return vd, false
	}
	i := int(v.ValidatorIndex)
	e := exact(v.BlockID)
	m.ids[e] = v.BlockID
	m.signed[i][e] = true
	if !delivered {
		return vd, false
	}
	if m.first[i] == "" && !m.tainted[i] {
		if vd == vValid {
			m.first[i] = e
			return vd, true
		}
		m.tainted[i] = true
	}
	return vd, false
}

// signedPower: power of the distinct validators that signed exactly this id (each counted once).
func (m *tally) signedPower(e string) *big.Int {
	who := map[int]bool{}
	for i := range m.signed {
		if m.signed[i][e] {
			who[i] = true
		}
	}
	return m.vs.powerOf(who)
}

// firstQuorum: some id is the first vote of validators with > 2/3 of the power.
func (m *tally) firstQuorum() (string, bool) {
	by := map[string]map[int]bool{}
	for i, e := range m.first {
		if e != "" {
			if by[e] == nil {
				by[e] = map[int]bool{}
			}
			by[e][i] = true
		}
	}
	var es []string
	for e := range by {
		es = append(es, e)
	}
	sort.Strings(es)
	for _, e := range es {
		if m.vs.quorum(m.vs.powerOf(by[e])) {
			return e, true
		}
	}
	return "", false
}

// votedBounds: power of validators that certainly have a vote in the set, and of those that may have.
func (m *tally) votedBounds() (lo, hi *big.Int) {
	l, h := map[int]bool{}, map[int]bool{}
	for i := range m.first {
		if m.first[i] != "" {
			l[i], h[i] = true, true
		} else if m.tainted[i] {
			h[i] = true
		}
	}
	return m.vs.powerOf(l), m.vs.powerOf(h)
}

// nearThreshold: the signed-for tally of some id is within one (largest) validator's power of the quorum boundary.
func (m *tally) nearThreshold() bool {
	two := new(big.Int).Mul(m.vs.total, big.NewInt(2))
	w := new(big.Int).Mul(big.NewInt(m.vs.maxP), big.NewInt(3))
	for e := range m.ids {
		d := new(big.Int).Mul(m.signedPower(e), big.NewInt(3))
		d.Sub(d, two)
		if d.Abs(d).Cmp(w) <= 0 {
			return true
		}
	}
	return false
}

// d7Shape: the reported id has no quorum, some other id of the history has the same BlockID.Key() although it differs
// in PartsHeader.Total, and the ids sharing the reported id's hash and part-set hash (any total) together do have one.
func (m *tally) d7Shape(maj types.BlockID) bool {
	who := map[int]bool{}
	collide := false
	for i := range m.signed {
		for e := range m.signed[i] {
			b := m.ids[e]
			if b.Hash == maj.Hash && b.PartsHeader.Hash == maj.PartsHeader.Hash {
				who[i] = true
				if b.PartsHeader.Total != maj.PartsHeader.Total && b.Key() == maj.Key() {
					collide = true
				}
			}
		}
	}
	return collide && m.vs.quorum(m.vs.powerOf(who))
}

// checkReports compares what a vote set reports with the tally (every clause of the property about vote sets).
func (m *tally) checkReports(t ev.TB, set *types.VoteSet, text func() string, missedKey string) (types.BlockID, bool) {
	var maj types.BlockID
	var ok, has, any, all, isCommit bool
	ev.Guard(t, text, func() {
		maj, ok = set.TwoThirdsMajority()
		has = set.HasTwoThirdsMajority()
		any = set.HasTwoThirdsAny()
		all = set.HasAll()
		isCommit = set.IsCommit()
	})
	if ok {
		if p := m.signedPower(exact(maj)); !m.vs.quorum(p) {
			key := keyMajNoQuorum
			if m.d7Shape(maj) {
				key = keyD7
			}
			ev.Violation(t, key, text(), "TwoThirdsMajority reports %s but the validators that signed exactly this id hold %v of %v (h=%d r=%d type=%v)",
				idName(maj), p, m.vs.total, m.h, m.r, m.typ)
		}
	}
	if has != ok || isCommit != (ok && m.typ == kproto.PrecommitType) {
		ev.Violation(t, keyReportsDisagree, text(), "TwoThirdsMajority ok=%v, HasTwoThirdsMajority=%v, IsCommit=%v (type %v)", ok, has, isCommit, m.typ)
	}
	if e, q := m.firstQuorum(); q && !ok {
		ev.Violation(t, missedKey, text(), "validators with >2/3 of %v cast their first vote for %s, no majority is reported", m.vs.total, idName(m.ids[e]))
	}
	lo, hi := m.votedBounds()
	if (any && !m.vs.quorum(hi)) || (!any && m.vs.quorum(lo)) {
		ev.Violation(t, keyAnyMismatch, text(), "HasTwoThirdsAny=%v but distinct voters hold %v..%v of %v", any, lo, hi, m.vs.total)
	}
	if (all && hi.Cmp(m.vs.total) != 0) || (!all && lo.Cmp(m.vs.total) == 0) {
		ev.Violation(t, keyAllMismatch, text(), "HasAll=%v but distinct voters hold %v..%v of %v", all, lo, hi, m.vs.total)
	}
	return maj, ok
}

// ---------------------------------------------------------------- votes

func peerName(p int) p2p.ID {
	if p < 0 {
		return p2p.ID("") // by convention: the node itself
	}
	return p2p.ID(fmt.Sprintf("peer%d", p))
}

// honest builds the canonical, correctly signed vote of validator i.
func honestVote(vs *valSet, chain string, typ kproto.SignedMsgType, h uint64, r uint32, i int, id types.BlockID, ts time.Time) *types.Vote {
	val := vs.vals[i]
	return &types.Vote{
		ValidatorAddress: val.addr,
		ValidatorIndex:   uint32(i),
		Height:           h,
		Round:            r,
		Timestamp:        ts,
		Type:             typ,
		BlockID:          id,
		Signature:        sign(val.key, signHash(chain, typ, h, r, id, ts)),
	}
}

var sigMutNames = []string{"flip-r", "flip-s", "v^1", "v^4", "trunc64", "one-byte", "extra-byte", "malleated", "zero65", "v=9", "r=N", "s=0", "ff65"}

// mutateSig returns a deterministic corruption of a canonical signature.
func mutateSig(sig []byte, kind int) []byte {
	s := append([]byte(nil), sig...)
	if len(s) != 65 { // already corrupted in length (two mutations of one entry): leave it
		return s
	}
	switch kind {
	case 0:
		s[5] ^= 0x10
	case 1:
		s[40] ^= 0x01
	case 2:
		s[64] ^= 1
	case 3:
		s[64] ^= 4
	case 4:
		s = s[:64]
	case 5:
		s = s[:1]
	case 6:
		s = append(s, 0x7f)
	case 7: // (r, n-s, v^1): the other encoding of the same signature
		ns := new(big.Int).Sub(curveN, new(big.Int).SetBytes(s[32:64]))
		b := ns.Bytes()
		for i := 32; i < 64; i++ {
			s[i] = 0
		}
		copy(s[64-len(b):64], b)
		s[64] ^= 1
	case 8:
		s = make([]byte, 65)
	case 9:
		s[64] = 9
	case 10: // r = the curve order
		copy(s[0:32], curveN.Bytes())
	case 11:
		for i := 32; i < 64; i++ {
			s[i] = 0
		}
	case 12:
		for i := range s {
			s[i] = 0xff
		}
	}
	return s
}

// addGuard runs one AddVote-like call. A product panic on a known key is counted by ev and reported here as
// panicked=true so that the caller treats the call as a refusal (the vote sets defer their unlock, nothing is left held).
func callGuard(t ev.TB, text func() string, f func()) (panicked bool) {
	done := false
	ev.Guard(t, text, func() { f(); done = true })
	return !done
}

// ---------------------------------------------------------------- TestVoteSetModel

type history struct {
	log []string
}

func (h *history) add(f string, a ...interface{}) { h.log = append(h.log, fmt.Sprintf(f, a...)) }
func (h *history) text() string                  { return strings.Join(h.log, ";") }

var stepKinds = []string{"valid", "valid", "valid", "valid", "valid", "valid", "valid", "valid", "valid", "conflict", "conflict",
	"duplicate", "retimed", "wrong-index", "wrong-address", "wrong-height", "wrong-round", "wrong-type", "wrong-chain", "bad-sig", "bad-sig", "peer-maj23", "peer-maj23", "peer-maj23"}

// drawnVote builds the vote of one history step of the given kind for step (h, r, typ). It returns nil when the kind
// is not applicable yet (e.g. a conflict before any vote).
func drawnVote(t *rapid.T, vs *valSet, chain string, typ kproto.SignedMsgType, h uint64, r uint32, main int, kind string,
	order []int, voted map[int]types.BlockID, offered []*types.Vote) (*types.Vote, string) {
	n := vs.n()
	pickVal := func() int {
		if rapid.Bool().Draw(t, "next-unvoted") {
			for _, i := range order {
				if _, ok := voted[i]; !ok {
					return i
				}
			}
		}
		return rapid.IntRange(0, n-1).Draw(t, "val")
	}
	switch kind {
	case "valid":
		i := pickVal()
		id := genID(t, main, "id")
		return honestVote(vs, chain, typ, h, r, i, id.id, baseTS), fmt.Sprintf("v%d:%s", i, id.name)
	case "conflict":
		if len(voted) == 0 {
			return nil, ""
		}
		var vi []int
		for i := range voted {
			vi = append(vi, i)
		}
		sort.Ints(vi)
		i := rapid.SampledFrom(vi).Draw(t, "cval")
		id := genID(t, main, "cid")
		return honestVote(vs, chain, typ, h, r, i, id.id, baseTS), fmt.Sprintf("v%d:%s", i, id.name)
	case "duplicate":
		if len(offered) == 0 {
			return nil, ""
		}
		j := rapid.IntRange(0, len(offered)-1).Draw(t, "dup")
		c := *offered[j]
		c.Signature = append([]byte(nil), c.Signature...)
		return &c, fmt.Sprintf("dup#%d", j)
	case "retimed": // same validator and id as an earlier vote, another timestamp (another genuine signature)
		if len(offered) == 0 {
			return nil, ""
		}
		j := rapid.IntRange(0, len(offered)-1).Draw(t, "ret")
		o := offered[j]
		if int(o.ValidatorIndex) >= n {
			return nil, ""
		}
		return honestVote(vs, chain, typ, h, r, int(o.ValidatorIndex), o.BlockID, lateTS), fmt.Sprintf("retimed#%d", j)
	case "wrong-index":
		i := pickVal()
		id := genID(t, main, "id")
		v := honestVote(vs, chain, typ, h, r, i, id.id, baseTS)
		alt := rapid.SampledFrom([]uint32{uint32(n), uint32(n + 1), ^uint32(0), uint32((i + 1) % n), uint32((i + n - 1) % n)}).Draw(t, "widx")
		if alt == uint32(i) {
			alt = uint32(n)
		}
		v.ValidatorIndex = alt
		return v, fmt.Sprintf("v%d:%s:index=%d", i, id.name, alt)
	case "wrong-address":
		i := pickVal()
		id := genID(t, main, "id")
		v := honestVote(vs, chain, typ, h, r, i, id.id, baseTS)
		switch w := rapid.IntRange(0, 3).Draw(t, "waddr"); w {
		case 0:
			v.ValidatorAddress = common.Address{}
		case 1: // another validator's address, signature still by i
			v.ValidatorAddress = vs.vals[(i+1)%n].addr
			if n == 1 {
				v.ValidatorAddress = keyAddrs[(vs.vals[0].key+1)%nKeys]
			}
		case 2: // another validator's address AND signature, offered under index i
			j := (i + 1) % n
			if n == 1 {
				return nil, ""
			}
			v = honestVote(vs, chain, typ, h, r, j, id.id, baseTS)
			v.ValidatorIndex = uint32(i)
		default: // outsider key signs and gives its own address under index i
			k := -1
			for c := 0; c < nKeys && k < 0; c++ {
				in := false
				for _, x := range vs.vals {
					in = in || x.key == c
				}
				if !in {
					k = c
				}
			}
			if k < 0 {
				return nil, ""
			}
			v.ValidatorAddress = keyAddrs[k]
			v.Signature = sign(k, signHash(chain, typ, h, r, id.id, baseTS))
		}
		return v, fmt.Sprintf("v%d:%s:addr=%x", i, id.name, v.ValidatorAddress[:3])
	case "wrong-height", "wrong-round", "wrong-type", "wrong-chain":
		i := pickVal()
		id := genID(t, main, "id")
		h2, r2, t2, c2 := h, r, typ, chain
		switch kind {
		case "wrong-height":
			h2 = h + uint64(rapid.SampledFrom([]int{1, 2}).Draw(t, "dh"))
			if rapid.Bool().Draw(t, "lower") && h > 1 {
				h2 = h - 1
			}
		case "wrong-round":
			r2 = r + uint32(rapid.SampledFrom([]int{1, 2}).Draw(t, "dr"))
			if rapid.Bool().Draw(t, "lower") && r > 0 {
				r2 = r - 1
			}
		case "wrong-type":
			t2 = rapid.SampledFrom([]kproto.SignedMsgType{kproto.PrevoteType, kproto.PrecommitType, kproto.UnknownType, kproto.ProposalType}).Draw(t, "wt")
			if t2 == typ {
				t2 = kproto.UnknownType
			}
		case "wrong-chain":
			c2 = otherChain
		}
		// the honest vote of ANOTHER step/chain …
		v := honestVote(vs, c2, t2, h2, r2, i, id.id, baseTS)
		how := "as-signed"
		// … offered as it is, or relabelled as a vote of this step (then its signature does not match; a different
		// chain id cannot be seen in the vote at all, so it is always "relabelled")
		if kind == "wrong-chain" || (kind != "wrong-type" && rapid.Bool().Draw(t, "relabel")) {
			v.Height, v.Round, v.Type = h, r, typ
			how = "relabelled"
		}
		return v, fmt.Sprintf("v%d:%s:%s:%s", i, id.name, kind, how)
	case "bad-sig":
		i := pickVal()
		id := genID(t, main, "id")
		v := honestVote(vs, chain, typ, h, r, i, id.id, baseTS)
		k := rapid.IntRange(0, len(sigMutNames)-1).Draw(t, "sigmut")
		v.Signature = mutateSig(v.Signature, k)
		return v, fmt.Sprintf("v%d:%s:sig-%s", i, id.name, sigMutNames[k])
	}
	return nil, ""
}

func TestVoteSetModel(t *testing.T) {
	maxSteps := ev.Scale("STEPS", 20)
	rapid.Check(t, func(t *rapid.T) {
		vs := genValSet(t)
		typ := kproto.PrecommitType
		if rapid.IntRange(0, 3).Draw(t, "type") == 0 {
			typ = kproto.PrevoteType
		}
		h := uint64(rapid.SampledFrom([]int{1, 2, 9}).Draw(t, "h"))
		r := uint32(rapid.SampledFrom([]int{0, 1, 3}).Draw(t, "r"))
		main := rapid.IntRange(1, len(idPool)-1).Draw(t, "main")
		order := rapid.Permutation(seq(vs.n())).Draw(t, "order")

		var set *types.VoteSet
		hist := &history{}
		hist.add("%s h=%d r=%d type=%d main=%s", vs.desc, h, r, typ, idPool[main].name)
		ev.Guard(t, hist.text, func() { set = types.NewVoteSet(chainID, h, r, typ, vs.set) })
		m := newTally(vs, chainID, h, r, typ)

		voted := map[int]types.BlockID{} // validator -> id of its first valid vote (generator bookkeeping only)
		var offered []*types.Vote
		classes := map[string]bool{vs.class: true}
		conflicts, peerClaims, commitsChecked := 0, 0, 0
		reportedAt := -1

		steps := rapid.IntRange(1, maxSteps).Draw(t, "steps")
		for s := 0; s < steps; s++ {
			kind := rapid.SampledFrom(stepKinds).Draw(t, "kind")
			if kind == "peer-maj23" {
				p := rapid.IntRange(0, 2).Draw(t, "peer")
				id := genID(t, main, "pid")
				hist.add("peer%d-maj23:%s", p, id.name)
				ev.Guard(t, hist.text, func() { _ = set.SetPeerMaj23(peerName(p), id.id) })
				peerClaims++
				classes["step:peer-maj23"] = true
			} else {
				v, desc := drawnVote(t, vs, chainID, typ, h, r, main, kind, order, voted, offered)
				if v == nil {
					continue
				}
				hist.add("%s", desc)
				classes["step:"+kind] = true
				vd, isFirst := m.offer(v, true)
				if vd != vInvalid {
					i := int(v.ValidatorIndex)
					if prev, ok := voted[i]; ok && exact(prev) != exact(v.BlockID) {
						conflicts++
						classes["conflicting-vote"] = true
					} else if !ok {
						voted[i] = v.BlockID
					}
				}
				if vd == vAmbiguous {
					classes["ambiguous-signature-encoding"] = true
				}
				offered = append(offered, v)
				var added bool
				var err error
				if callGuard(t, hist.text, func() { added, err = set.AddVote(v) }) {
					added, err = false, fmt.Errorf("panic (known finding)")
					classes["known-panic"] = true
				}
				if added && vd == vInvalid {
					ev.Violation(t, keyInvalidAdded, hist.text(), "AddVote added a vote that is not a valid vote of this step (%s), err=%v", desc, err)
				}
				if isFirst && (!added || err != nil) {
					ev.Violation(t, keyValidRefused, hist.text(), "first valid vote of validator %d (%s) refused: added=%v err=%v", v.ValidatorIndex, desc, added, err)
				}
			}

			maj, ok := m.checkReports(t, set, hist.text, keyMajMissed)
			if ok && reportedAt < 0 {
				reportedAt = s
			}
			// MakeCommit → VerifyCommit with the same set: at the step that first reports, at the last step, and at drawn steps
			if ok && typ == kproto.PrecommitType && !isNilID(maj) {
				if reportedAt == s || s == steps-1 || rapid.IntRange(0, 3).Draw(t, "commit-now") == 0 {
					checkMakeCommit(t, vs, set, m, maj, hist, rapid.IntRange(0, 3).Draw(t, "to-voteset") == 0)
					commitsChecked++
				}
			}
		}

		if maj, ok := set.TwoThirdsMajority(); ok {
			for i := range m.first {
				if e := exact(maj); m.signed[i][e] && m.first[i] != "" && m.first[i] != e {
					classes["majority-id-also-signed-as-conflicting-vote"] = true
				}
			}
		}
		if reportedAt >= 0 {
			classes["majority-reported"] = true
			if reportedAt < steps-1 {
				classes["votes-after-majority"] = true
			}
		}
		if commitsChecked > 0 {
			classes["makecommit-verified"] = true
		}
		near := m.nearThreshold()
		if near {
			classes["tally-near-threshold"] = true
		}
		var cl []string
		for c := range classes {
			cl = append(cl, c)
		}
		sort.Strings(cl)
		nontrivial := (conflicts > 0 || peerClaims > 0) && near
		ev.Case(nontrivial, hist.text(), cl...)
		if nontrivial && ev.WantSample("voteset-history") {
			ev.Sample("voteset-history", hist.text())
		}
	})
}

func seq(n int) []int {
	s := make([]int, n)
	for i := range s {
		s[i] = i
	}
	return s
}

// checkMakeCommit: the commit built from a reported majority is accepted by VerifyCommit with the same set, and is a
// quorum certificate by the independent predicate; optionally CommitToVoteSet (its documented inverse) reports it again.
func checkMakeCommit(t ev.TB, vs *valSet, set *types.VoteSet, m *tally, maj types.BlockID, hist *history, toVoteSet bool) {
	var c *types.Commit
	ev.Guard(t, hist.text, func() { c = set.MakeCommit() })
	if c == nil {
		return
	}
	var err error
	if callGuard(t, hist.text, func() { err = vs.set.VerifyCommit(m.chain, maj, m.h, c) }) {
		return
	}
	if err != nil {
		ev.Violation(t, keyMakeRejected, hist.text(), "MakeCommit() for reported majority %s rejected by VerifyCommit with the same set: %v", idName(maj), err)
	}
	if p := commitPredicate(vs, m.chain, maj, m.h, c); !p.quorum {
		ev.Violation(t, keyMakeNoQuorum, hist.text(), "MakeCommit() for %s: for-block signatures valid at their index hold %v of %v (round in commit %d)", idName(maj), p.power, vs.total, c.Round)
	}
	if toVoteSet {
		var back *types.VoteSet
		if callGuard(t, hist.text, func() { back = types.CommitToVoteSet(m.chain, c, vs.set) }) || back == nil {
			return
		}
		if b, ok := back.TwoThirdsMajority(); !ok || exact(b) != exact(maj) {
			ev.Violation(t, keyToVoteSet, hist.text(), "CommitToVoteSet(MakeCommit()) reports %s/%v, the commit is for %s", idName(b), ok, idName(maj))
		}
	}
}
