// C02 — the same tally clauses through consensus/types.HeightVoteSet: several rounds, both vote types, rounds opened
// by SetRound and by peer catch-up (at most two per peer, as its documentation says), peer majority claims per round.
package c02

import (
	"fmt"
	"sort"
	"testing"

	"pgregory.net/rapid"

	cstypes "github.com/kardiachain/go-kardia/consensus/types"
	"github.com/kardiachain/go-kardia/lib/log"
	"github.com/kardiachain/go-kardia/lib/p2p"
	kproto "github.com/kardiachain/go-kardia/proto/kardiachain/types"
	"github.com/kardiachain/go-kardia/types"

	"verifharness/internal/ev"
)

type stepKey struct {
	r   uint32
	typ kproto.SignedMsgType
}

type stepState struct {
	m       *tally
	voted   map[int]types.BlockID
	offered []*types.Vote
	order   []int
}

// hvsModel mirrors only the ROUTING the documentation of HeightVoteSet promises (rounds 0…round are tracked, plus up to
// two catch-up rounds per peer); the tallies behind it are the same independent ones as in TestVoteSetModel.
type hvsModel struct {
	vs      *valSet
	h       uint64
	tracked map[uint32]bool
	round   uint32
	catchup map[p2p.ID]int
	steps   map[stepKey]*stepState
}

func (hm *hvsModel) step(r uint32, typ kproto.SignedMsgType) *stepState {
	k := stepKey{r, typ}
	if s, ok := hm.steps[k]; ok {
		return s
	}
	s := &stepState{m: newTally(hm.vs, chainID, hm.h, r, typ), voted: map[int]types.BlockID{}, order: seq(hm.vs.n())}
	hm.steps[k] = s
	return s
}

func (hm *hvsModel) setRound(round uint32) {
	from := hm.round - 1 // the first call also opens round 0 (hm.round starts at 1)
	for r := from; r <= round; r++ {
		hm.tracked[r] = true
	}
	hm.round = round
}

// deliver: does a vote of a valid type for round r from this peer reach a vote set?
func (hm *hvsModel) deliver(r uint32, peer p2p.ID) bool {
	if hm.tracked[r] {
		return true
	}
	if hm.catchup[peer] < 2 {
		hm.catchup[peer]++
		hm.tracked[r] = true
		return true
	}
	return false
}

var hvsVoteKinds = []string{"valid", "valid", "valid", "valid", "valid", "valid", "valid", "valid", "valid", "valid", "conflict", "conflict",
	"duplicate", "retimed", "wrong-index", "wrong-address", "wrong-height", "wrong-round", "wrong-type", "wrong-chain", "bad-sig"}

func TestHeightVoteSet(t *testing.T) {
	maxSteps := ev.Scale("STEPS", 24)
	logger := log.New()
	rapid.Check(t, func(t *rapid.T) {
		vs := genValSet(t)
		h := uint64(rapid.SampledFrom([]int{1, 2, 9}).Draw(t, "h"))
		main := rapid.IntRange(1, len(idPool)-1).Draw(t, "main")
		hist := &history{}
		hist.add("%s h=%d main=%s", vs.desc, h, idPool[main].name)
		var hvs *cstypes.HeightVoteSet
		ev.Guard(t, hist.text, func() { hvs = cstypes.NewHeightVoteSet(logger, chainID, h, vs.set) })
		hm := &hvsModel{vs: vs, h: h, tracked: map[uint32]bool{1: true}, round: 1, catchup: map[p2p.ID]int{}, steps: map[stepKey]*stepState{}}
		classes := map[string]bool{vs.class: true}
		conflicts, claims, refused, catchups := 0, 0, 0, 0
		reported := map[stepKey]bool{}

		steps := rapid.IntRange(1, maxSteps).Draw(t, "steps")
		for s := 0; s < steps; s++ {
			switch op := rapid.IntRange(0, 11).Draw(t, "op"); {
			case op == 0: // SetRound, as enterNewRound does it: round+1 for strictly increasing rounds starting at 1
				next := hm.round + uint32(rapid.IntRange(1, 2).Draw(t, "dr"))
				if next > 6 {
					continue
				}
				hist.add("setround:%d", next)
				ev.Guard(t, hist.text, func() { hvs.SetRound(next) })
				hm.setRound(next)
				classes["hvs:set-round"] = true
			case op <= 2: // a peer claims a majority
				r := uint32(rapid.IntRange(0, 7).Draw(t, "claim-round"))
				typ := rapid.SampledFrom([]kproto.SignedMsgType{kproto.PrevoteType, kproto.PrecommitType}).Draw(t, "claim-type")
				p := rapid.IntRange(0, 2).Draw(t, "peer")
				id := genID(t, main, "pid")
				hist.add("peer%d-maj23:r%d:t%d:%s", p, r, typ, id.name)
				ev.Guard(t, hist.text, func() { _ = hvs.SetPeerMaj23(r, typ, peerName(p), id.id) })
				claims++
				classes["step:peer-maj23"] = true
			default: // a vote
				var r uint32
				if rapid.IntRange(0, 3).Draw(t, "near") != 0 {
					r = hm.round - uint32(rapid.IntRange(0, 1).Draw(t, "back"))
				} else {
					r = uint32(rapid.IntRange(0, 7).Draw(t, "round"))
				}
				typ := rapid.SampledFrom([]kproto.SignedMsgType{kproto.PrevoteType, kproto.PrecommitType}).Draw(t, "type")
				peer := peerName(rapid.IntRange(-1, 1).Draw(t, "from"))
				kind := rapid.SampledFrom(hvsVoteKinds).Draw(t, "kind")
				gs := hm.step(r, typ)
				v, desc := drawnVote(t, vs, chainID, typ, h, r, main, kind, gs.order, gs.voted, gs.offered)
				if v == nil {
					continue
				}
				hist.add("from[%s]r%d:t%d:%s", peer, r, typ, desc)
				classes["step:"+kind] = true
				gs.offered = append(gs.offered, v)
				// route by what the vote itself says (a vote "of another round" is a vote for that round's set)
				vd, isFirst, delivered := vInvalid, false, false
				if types.IsVoteTypeValid(v.Type) {
					wasTracked := hm.tracked[v.Round]
					delivered = hm.deliver(v.Round, peer)
					if !delivered {
						refused++
						classes["hvs:vote-for-unwanted-round"] = true
					} else if !wasTracked {
						catchups++
						classes["hvs:catch-up-round"] = true
					}
					ts := hm.step(v.Round, v.Type)
					vd, isFirst = ts.m.offer(v, delivered)
					if vd != vInvalid && delivered {
						i := int(v.ValidatorIndex)
						if prev, ok := ts.voted[i]; ok && exact(prev) != exact(v.BlockID) {
							conflicts++
							classes["conflicting-vote"] = true
						} else if !ok {
							ts.voted[i] = v.BlockID
						}
					}
				}
				var added bool
				var err error
				if callGuard(t, hist.text, func() { added, err = hvs.AddVote(v, peer) }) {
					added, err = false, fmt.Errorf("panic (known finding)")
					classes["known-panic"] = true
				}
				if added && vd == vInvalid {
					ev.Violation(t, keyInvalidAdded, hist.text(), "HeightVoteSet.AddVote added %s, which is not a valid vote of any step of this height, err=%v", desc, err)
				}
				if isFirst && (!added || err != nil) {
					ev.Violation(t, keyValidRefused, hist.text(), "first valid vote of validator %d for round %d type %v (%s) refused: added=%v err=%v", v.ValidatorIndex, v.Round, v.Type, desc, added, err)
				}
			}

			// every step of the height, against its own tally
			var ks []stepKey
			for k := range hm.steps {
				ks = append(ks, k)
			}
			sort.Slice(ks, func(a, b int) bool { return ks[a].r < ks[b].r || ks[a].r == ks[b].r && ks[a].typ < ks[b].typ })
			for _, k := range ks {
				var set *types.VoteSet
				ev.Guard(t, hist.text, func() {
					if k.typ == kproto.PrevoteType {
						set = hvs.Prevotes(k.r)
					} else {
						set = hvs.Precommits(k.r)
					}
				})
				m := hm.steps[k].m
				if set == nil {
					if e, q := m.firstQuorum(); q {
						ev.Violation(t, keyHvsMissed, hist.text(), "round %d type %v: >2/3 first votes for %s were delivered, but the height vote set has no set for this round", k.r, k.typ, idName(m.ids[e]))
					}
					continue
				}
				maj, ok := m.checkReports(t, set, hist.text, keyHvsMissed)
				if ok && !reported[k] {
					reported[k] = true
					if k.typ == kproto.PrecommitType && !isNilID(maj) {
						checkMakeCommit(t, vs, set, m, maj, hist, false)
						classes["makecommit-verified"] = true
					}
				}
			}
			// POLInfo: the latest round ≤ the current one with a prevote majority
			var polR uint32
			var polID types.BlockID
			ev.Guard(t, hist.text, func() { polR, polID = hvs.POLInfo() })
			if polR > 0 {
				classes["hvs:pol-reported"] = true
				ps, ok := hm.steps[stepKey{polR, kproto.PrevoteType}]
				if !ok || !vs.quorum(ps.m.signedPower(exact(polID))) || polR > hm.round {
					ev.Violation(t, keyHvsPol, hist.text(), "POLInfo reports round %d id %s; prevotes signed for exactly that id in that round do not hold >2/3 of %v (current round %d)", polR, idName(polID), vs.total, hm.round)
				}
			}
			for r := hm.round; r >= 1; r-- {
				if ps, ok := hm.steps[stepKey{r, kproto.PrevoteType}]; ok {
					if e, q := ps.m.firstQuorum(); q {
						if polR < r {
							ev.Violation(t, keyHvsPolMissed, hist.text(), "round %d has >2/3 first prevotes for %s, POLInfo reports round %d", r, idName(ps.m.ids[e]), polR)
						}
						break
					}
				}
			}
		}

		near := false
		for _, s := range hm.steps {
			near = near || s.m.nearThreshold()
		}
		if len(reported) > 0 {
			classes["majority-reported"] = true
		}
		if len(reported) > 1 {
			classes["hvs:majorities-in-several-steps"] = true
		}
		if near {
			classes["tally-near-threshold"] = true
		}
		var cl []string
		for c := range classes {
			cl = append(cl, c)
		}
		sort.Strings(cl)
		nontrivial := (conflicts > 0 || claims > 0 || catchups > 0) && near
		ev.Case(nontrivial, hist.text(), cl...)
		if nontrivial && ev.WantSample("hvs-history") {
			ev.Sample("hvs-history", hist.text())
		}
	})
}
