// C02 — directed tests: regression of the fixed finding D7, reproducer of the short-signature panic, and an exhaustive
// table of the quorum boundary over all small validator sets.
package c02

import (
	"fmt"
	"math/big"
	"testing"

	"github.com/kardiachain/go-kardia/lib/common"
	kproto "github.com/kardiachain/go-kardia/proto/kardiachain/types"
	"github.com/kardiachain/go-kardia/types"

	"verifharness/internal/ev"
)

func equalSet(n int, power int64) *valSet {
	ks := make([]int, n)
	ps := make([]int64, n)
	for i := range ks {
		ks[i], ps[i] = i, power
	}
	return buildValSet(ks, ps, "valset:directed")
}

func TestDirected(t *testing.T) {
	// ---- fixed: tally.blockid-key-omits-total (D7, /repo c573e3e). Four equal validators; two sign X, one signs X′ which
	// differs from X only in PartsHeader.Total. Nobody's id has 3 of 4; with the defect the three votes shared one tally
	// bucket and X′ was reported.
	t.Run("fixed-D7-blockid-key-omits-total", func(t *testing.T) {
		vs := equalSet(4, 1)
		x := types.BlockID{Hash: common.BytesToHash([]byte{0xb0, 1}), PartsHeader: types.PartSetHeader{Total: 1, Hash: common.BytesToHash([]byte{0xa0, 1})}}
		x2 := x
		x2.PartsHeader.Total = 2
		for _, typ := range []kproto.SignedMsgType{kproto.PrevoteType, kproto.PrecommitType} {
			set := types.NewVoteSet(chainID, 5, 1, typ, vs.set)
			text := fmt.Sprintf("%s type=%d: v0:X v1:X v2:X' (X' = X with another Total)", vs.desc, typ)
			for i, id := range []types.BlockID{x, x, x2} {
				v := honestVote(vs, chainID, typ, 5, 1, i, id, baseTS)
				var added bool
				var err error
				ev.Guard(t, func() string { return text }, func() { added, err = set.AddVote(v) })
				if !added || err != nil {
					ev.Violation(t, keyValidRefused, text, "first valid vote of validator %d refused: added=%v err=%v", i, added, err)
				}
				if maj, ok := set.TwoThirdsMajority(); ok {
					if i < 2 { // not this defect: two equal validators of four are no majority for anything
						ev.Violation(t, keyMajNoQuorum, text, "majority %s reported after %d of 4 equal validators voted", idName(maj), i+1)
					}
					ev.Violation(t, keyD7, text, "majority %s/%d reported; 2 of 4 signed X (total 1) and 1 of 4 signed X' (total 2)", maj, maj.PartsHeader.Total)
				}
			}
			if x.Key() == x2.Key() {
				ev.Violation(t, keyD7, text, "BlockID.Key() is the same for two ids that differ in PartsHeader.Total: %q", x.Key())
			}
			// and the fourth validator signing X does make X (and only X) a majority
			v := honestVote(vs, chainID, typ, 5, 1, 3, x, baseTS)
			set.AddVote(v)
			if maj, ok := set.TwoThirdsMajority(); !ok || exact(maj) != exact(x) {
				ev.Violation(t, keyMajMissed, text+" v3:X", "3 of 4 first votes are for X; reported %v/%v", maj, ok)
			}
			ev.Case(true, text, "directed:D7")
		}
	})

	// ---- malformed signature values (shorter than 65 bytes, r = curve order, s = 0) in a vote and in a commit entry are
	// refusals. (They used to panic in lib/crypto.SigToPub: C11's fixed finding sig.verify-panics.*, /repo 3cacbf1; a
	// panic here is reported by ev.Guard under panic:<function>.)
	t.Run("malformed-signature-values", func(t *testing.T) {
		vs := equalSet(4, 1)
		x := idPool[1].id
		for _, k := range []int{4, 5, 6, 10, 11, 12} {
			text := "malformed signature " + sigMutNames[k]
			v := honestVote(vs, chainID, kproto.PrecommitType, 5, 1, 0, x, baseTS)
			v.Signature = mutateSig(v.Signature, k)
			set := types.NewVoteSet(chainID, 5, 1, kproto.PrecommitType, vs.set)
			var added bool
			ev.Guard(t, func() string { return text }, func() { added, _ = set.AddVote(v) })
			hash := signHash(chainID, kproto.PrecommitType, 5, 1, x, baseTS)
			if added && !sigLenient(vs.vals[0].addr, hash, v.Signature) {
				ev.Violation(t, keyInvalidAdded, text, "a vote with signature %x was added", v.Signature)
			}
			sigs := make([]types.CommitSig, 4)
			for i := range sigs {
				sigs[i] = honestSig(vs, chainID, i, types.BlockIDFlagCommit, 5, 1, x, baseTS)
			}
			sigs[3].Signature = mutateSig(sigs[3].Signature, k)
			sigs[2] = types.NewCommitSigAbsent()
			c := types.NewCommit(5, 1, x, sigs)
			var err error
			ev.Guard(t, func() string { return text }, func() { err = vs.set.VerifyCommit(chainID, x, 5, c) })
			if err == nil && !commitPredicate(vs, chainID, x, 5, c).quorum {
				ev.Violation(t, keyAcceptNoQuorum, text, "commit with two genuine signatures of four and one malformed (%s) accepted", sigMutNames[k])
			}
			ev.Case(true, text, "directed:malformed-signature")
		}
	})

	// ---- degenerate arguments are refusals, not panics
	t.Run("nil-arguments", func(t *testing.T) {
		vs := equalSet(1, 1)
		var err error
		ev.Guard(t, nil, func() { err = vs.set.VerifyCommit(chainID, idPool[1].id, 1, nil) })
		if err == nil {
			ev.Violation(t, keyAcceptNoQuorum, "VerifyCommit(nil commit)", "a nil commit was accepted")
		}
		var none *types.ValidatorSet
		ev.Guard(t, nil, func() { err = none.VerifyCommit(chainID, idPool[1].id, 1, types.NewCommit(1, 0, idPool[1].id, nil)) })
		if err == nil {
			ev.Violation(t, keyAcceptNoQuorum, "nil set VerifyCommit", "a nil validator set accepted a commit")
		}
		ev.Case(false, "nil-arguments", "directed:nil-arguments")
	})
}

// TestThresholdTable enumerates EVERY validator set of 1–3 validators with powers 1…4 (plus the near-cap splits) and
// every assignment of {for-block, nil, absent} to its validators: all votes are first votes and canonical, so both
// directions are exact — a majority for X is reported, and the hand-built commit accepted, iff 3·power(X) > 2·total.
func TestThresholdTable(t *testing.T) {
	x := idPool[3].id
	var sets []*valSet
	for n := 1; n <= 3; n++ {
		ps := make([]int64, n)
		var rec func(i int)
		rec = func(i int) {
			if i == n {
				sets = append(sets, buildValSet(seq(n), append([]int64(nil), ps...), "valset:table"))
				return
			}
			for p := int64(1); p <= 4; p++ {
				ps[i] = p
				rec(i + 1)
			}
		}
		rec(0)
	}
	max := types.MaxTotalVotingPower
	third := max / 3
	for _, ps := range [][]int64{{third, third, third}, {third + 1, third, third - 1}, {2 * third, third}, {2*third + 1, third - 1}, {2*third - 1, third}, {max}} {
		sets = append(sets, buildValSet(seq(len(ps)), ps, "valset:table-cap"))
	}
	cases, boundary := 0, 0
	for _, vs := range sets {
		n := vs.n()
		pow3 := 1
		for i := 0; i < n; i++ {
			pow3 *= 3
		}
		for a := 0; a < pow3; a++ {
			flags := make([]types.BlockIDFlag, n)
			txt := ""
			forX, voters := map[int]bool{}, map[int]bool{}
			for i, q := 0, a; i < n; i, q = i+1, q/3 {
				flags[i] = []types.BlockIDFlag{types.BlockIDFlagCommit, types.BlockIDFlagNil, types.BlockIDFlagAbsent}[q%3]
				txt += string("CNA"[q%3])
				if q%3 == 0 {
					forX[i] = true
				}
				if q%3 != 2 {
					voters[i] = true
				}
			}
			text := fmt.Sprintf("%s flags=%s", vs.desc, txt)
			want := vs.quorum(vs.powerOf(forX))
			nilWho := map[int]bool{}
			for i := range voters {
				if !forX[i] {
					nilWho[i] = true
				}
			}
			wantNil := vs.quorum(vs.powerOf(nilWho))
			if vs.exactlyTwoThirds(vs.powerOf(forX)) {
				boundary++
			}
			for _, typ := range []kproto.SignedMsgType{kproto.PrevoteType, kproto.PrecommitType} {
				var set *types.VoteSet
				ev.Guard(t, func() string { return text }, func() {
					set = types.NewVoteSet(chainID, 3, 1, typ, vs.set)
					for i, f := range flags {
						switch f {
						case types.BlockIDFlagCommit:
							set.AddVote(honestVote(vs, chainID, typ, 3, 1, i, x, baseTS))
						case types.BlockIDFlagNil:
							set.AddVote(honestVote(vs, chainID, typ, 3, 1, i, types.BlockID{}, baseTS))
						}
					}
				})
				maj, ok := set.TwoThirdsMajority()
				switch {
				case ok && !(want && exact(maj) == exact(x)) && !(wantNil && isNilID(maj)):
					ev.Violation(t, keyMajNoQuorum, text, "type %v: majority %s reported; X has %v, nil has %v of %v", typ, idName(maj), vs.powerOf(forX), vs.powerOf(nilWho), vs.total)
				case want && !ok:
					ev.Violation(t, keyMajMissed, text, "type %v: %v of %v voted X first, nothing reported", typ, vs.powerOf(forX), vs.total)
				case wantNil && !ok:
					ev.Violation(t, keyMajMissed, text, "type %v: %v of %v voted nil first, nothing reported", typ, vs.powerOf(nilWho), vs.total)
				}
				if any := set.HasTwoThirdsAny(); any != vs.quorum(vs.powerOf(voters)) {
					ev.Violation(t, keyAnyMismatch, text, "HasTwoThirdsAny=%v, voters hold %v of %v", any, vs.powerOf(voters), vs.total)
				}
				if all := set.HasAll(); all != (vs.powerOf(voters).Cmp(vs.total) == 0) {
					ev.Violation(t, keyAllMismatch, text, "HasAll=%v, voters hold %v of %v", all, vs.powerOf(voters), vs.total)
				}
			}
			sigs := make([]types.CommitSig, n)
			for i, f := range flags {
				sigs[i] = honestSig(vs, chainID, i, f, 3, 1, x, baseTS)
			}
			c := types.NewCommit(3, 1, x, sigs)
			var err error
			ev.Guard(t, func() string { return text }, func() { err = vs.set.VerifyCommit(chainID, x, 3, c) })
			if want && err != nil {
				ev.Violation(t, keyRejectQuorum, text, "commit with %v of %v for X rejected: %v", vs.powerOf(forX), vs.total, err)
			}
			if !want && err == nil {
				key := acceptKey(vs, vs.powerOf(forX), vs.powerOf(voters))
				ev.Violation(t, key, text, "commit with %v of %v for X accepted", vs.powerOf(forX), vs.total)
			}
			ev.Case(txt != "" && (vs.exactlyTwoThirds(vs.powerOf(forX)) || new(big.Int).Abs(new(big.Int).Sub(new(big.Int).Mul(vs.powerOf(forX), big.NewInt(3)), new(big.Int).Mul(vs.total, big.NewInt(2)))).Cmp(big.NewInt(3*vs.maxP)) <= 0), text, "table")
			cases++
		}
	}
	ev.Note("threshold_table_cases", cases)
	ev.Note("threshold_table_exactly_two_thirds", boundary)
	ev.Exhaustive()
}
