// C02 — arbitrary commits against an independent commit verifier (both directions).
package c02

import (
	"fmt"
	"math/big"
	"sort"
	"strings"
	"testing"
	"time"

	"pgregory.net/rapid"

	"github.com/kardiachain/go-kardia/lib/common"
	kproto "github.com/kardiachain/go-kardia/proto/kardiachain/types"
	"github.com/kardiachain/go-kardia/types"

	"verifharness/internal/ev"
)

type predicate struct {
	power       *big.Int // validators AT THE COMMIT'S INDICES of this set whose for-block entry is a genuine signature of (id, height, commit round)
	quorum      bool
	nonAbsent   *big.Int // diagnosis only: additionally the nil entries genuinely signed for nil
	exactlyTwo3 bool
}

// commitPredicate is the independent reading of "this commit justifies block id at height h for validator set vs":
// position i of the commit speaks for validator i of the set and for nobody else (so nobody is counted twice), only
// for-block entries count, the signature must be by THAT validator over exactly (chain, precommit, h, commit.Round, id,
// the entry's timestamp) — id and h are the CALLER's, not the commit's own fields — and the power so collected must be
// strictly more than two thirds of the set's total.
func commitPredicate(vs *valSet, chain string, id types.BlockID, h uint64, c *types.Commit) predicate {
	who, whoNil := map[int]bool{}, map[int]bool{}
	for i, cs := range c.Signatures {
		if i >= vs.n() {
			break
		}
		switch cs.BlockIDFlag {
		case types.BlockIDFlagCommit:
			if sigLenient(vs.vals[i].addr, signHash(chain, kproto.PrecommitType, h, c.Round, id, cs.Timestamp), cs.Signature) {
				who[i], whoNil[i] = true, true
			}
		case types.BlockIDFlagNil:
			if sigLenient(vs.vals[i].addr, signHash(chain, kproto.PrecommitType, h, c.Round, types.BlockID{}, cs.Timestamp), cs.Signature) {
				whoNil[i] = true
			}
		}
	}
	p := vs.powerOf(who)
	return predicate{power: p, quorum: vs.quorum(p), nonAbsent: vs.powerOf(whoNil), exactlyTwo3: vs.exactlyTwoThirds(p)}
}

// wellFormed: a commit every honest node would produce or relay for (vs, id, h): right size, height and id, a
// complete id, absent entries empty, every other entry carrying its validator's address and that validator's
// canonical signature for what its flag says. Only such commits oblige VerifyCommit to accept (when they hold a quorum).
func wellFormed(vs *valSet, chain string, id types.BlockID, h uint64, c *types.Commit) bool {
	if c == nil || h < 1 || c.Height != h || exact(c.BlockID) != exact(id) || len(c.Signatures) != vs.n() {
		return false
	}
	if id.Hash == (common.Hash{}) || (id.PartsHeader.Total == 0 && id.PartsHeader.Hash == (common.Hash{})) {
		return false
	}
	for i, cs := range c.Signatures {
		switch cs.BlockIDFlag {
		case types.BlockIDFlagAbsent:
			if cs.ValidatorAddress != (common.Address{}) || !cs.Timestamp.IsZero() || len(cs.Signature) != 0 {
				return false
			}
		case types.BlockIDFlagCommit, types.BlockIDFlagNil:
			signedID := id
			if cs.BlockIDFlag == types.BlockIDFlagNil {
				signedID = types.BlockID{}
			}
			if cs.ValidatorAddress != vs.vals[i].addr || cs.Timestamp.IsZero() {
				return false
			}
			if !sigStrict(vs.vals[i].addr, signHash(chain, kproto.PrecommitType, h, c.Round, signedID, cs.Timestamp), cs.Signature) {
				return false
			}
		default:
			return false
		}
	}
	return true
}

func honestSig(vs *valSet, chain string, i int, flag types.BlockIDFlag, h uint64, r uint32, id types.BlockID, ts time.Time) types.CommitSig {
	switch flag {
	case types.BlockIDFlagCommit:
		return types.CommitSig{BlockIDFlag: flag, ValidatorAddress: vs.vals[i].addr, Timestamp: ts,
			Signature: sign(vs.vals[i].key, signHash(chain, kproto.PrecommitType, h, r, id, ts))}
	case types.BlockIDFlagNil:
		return types.CommitSig{BlockIDFlag: flag, ValidatorAddress: vs.vals[i].addr, Timestamp: ts,
			Signature: sign(vs.vals[i].key, signHash(chain, kproto.PrecommitType, h, r, types.BlockID{}, ts))}
	}
	return types.NewCommitSigAbsent()
}

func flagsText(c *types.Commit) string {
	var b strings.Builder
	for _, cs := range c.Signatures {
		switch cs.BlockIDFlag {
		case types.BlockIDFlagAbsent:
			b.WriteByte('A')
		case types.BlockIDFlagCommit:
			b.WriteByte('C')
		case types.BlockIDFlagNil:
			b.WriteByte('N')
		default:
			fmt.Fprintf(&b, "<%d>", cs.BlockIDFlag)
		}
	}
	return b.String()
}

// handCommit draws the flags of every position: either independently, or as a minimal quorum in a drawn order (then
// sometimes with its last member demoted, i.e. just below the boundary).
func handCommit(t *rapid.T, vs *valSet, h uint64, r uint32, id types.BlockID) *types.Commit {
	n := vs.n()
	flags := make([]types.BlockIDFlag, n)
	other := func(label string) types.BlockIDFlag {
		return rapid.SampledFrom([]types.BlockIDFlag{types.BlockIDFlagAbsent, types.BlockIDFlagAbsent, types.BlockIDFlagNil}).Draw(t, label)
	}
	if rapid.Bool().Draw(t, "minimal-quorum") {
		order := rapid.Permutation(seq(n)).Draw(t, "corder")
		who := map[int]bool{}
		last := -1
		for _, i := range order {
			if !vs.quorum(vs.powerOf(who)) {
				who[i] = true
				last = i
			}
		}
		if rapid.Bool().Draw(t, "just-below") && last >= 0 {
			delete(who, last)
		}
		for i := range flags {
			if who[i] {
				flags[i] = types.BlockIDFlagCommit
			} else {
				flags[i] = other("oflag")
			}
		}
	} else {
		for i := range flags {
			flags[i] = rapid.SampledFrom([]types.BlockIDFlag{types.BlockIDFlagCommit, types.BlockIDFlagCommit, types.BlockIDFlagCommit,
				types.BlockIDFlagCommit, types.BlockIDFlagCommit, types.BlockIDFlagCommit, types.BlockIDFlagNil, types.BlockIDFlagNil,
				types.BlockIDFlagAbsent, types.BlockIDFlagAbsent}).Draw(t, "flag")
		}
	}
	sigs := make([]types.CommitSig, n)
	for i, f := range flags {
		ts := baseTS
		if rapid.IntRange(0, 5).Draw(t, "late") == 0 {
			ts = lateTS
		}
		sigs[i] = honestSig(vs, chainID, i, f, h, r, id, ts)
	}
	return types.NewCommit(h, r, id, sigs)
}

// voteSetCommit: the commit MakeCommit builds from a drawn vote history that reaches a majority for a block (nil if
// the history does not get there).
func voteSetCommit(t *rapid.T, vs *valSet, h uint64, r uint32, main int, hist *history) (*types.Commit, types.BlockID) {
	var set *types.VoteSet
	ev.Guard(t, hist.text, func() { set = types.NewVoteSet(chainID, h, r, kproto.PrecommitType, vs.set) })
	if rapid.Bool().Draw(t, "claim") {
		id := genID(t, main, "claim-id")
		hist.add("peer0-maj23:%s", id.name)
		ev.Guard(t, hist.text, func() { _ = set.SetPeerMaj23(peerName(0), id.id) })
	}
	for s := 0; s < 2*vs.n()+2; s++ {
		i := rapid.IntRange(0, vs.n()-1).Draw(t, "val")
		id := genID(t, main, "id")
		hist.add("v%d:%s", i, id.name)
		v := honestVote(vs, chainID, kproto.PrecommitType, h, r, i, id.id, baseTS)
		ev.Guard(t, hist.text, func() { _, _ = set.AddVote(v) })
		if maj, ok := set.TwoThirdsMajority(); ok {
			if isNilID(maj) {
				return nil, maj
			}
			if rapid.Bool().Draw(t, "more-votes") {
				continue // keep voting after the majority (late conflicting votes, replacements)
			}
			var c *types.Commit
			ev.Guard(t, hist.text, func() { c = set.MakeCommit() })
			return c, maj
		}
	}
	if maj, ok := set.TwoThirdsMajority(); ok && !isNilID(maj) {
		var c *types.Commit
		ev.Guard(t, hist.text, func() { c = set.MakeCommit() })
		return c, maj
	}
	return nil, types.BlockID{}
}

var commitMutations = []string{"size-1", "size+1", "height-field", "height-whole", "id-field", "id-whole", "round-field",
	"bad-sig", "bad-sig", "foreign-sig", "address", "flag-swap", "dup-signer", "bad-flag", "absent-leftover", "timestamp", "other-set", "other-set", "other-chain"}

func TestCommitVerify(t *testing.T) {
	rapid.Check(t, func(t *rapid.T) {
		vs := genValSet(t)
		n := vs.n()
		h := uint64(rapid.SampledFrom([]int{1, 2, 9}).Draw(t, "h"))
		r := uint32(rapid.SampledFrom([]int{0, 1, 3}).Draw(t, "r"))
		main := rapid.IntRange(1, len(idPool)-1).Draw(t, "main")
		id := idPool[main].id
		hist := &history{}
		hist.add("%s h=%d r=%d id=%s", vs.desc, h, r, idPool[main].name)
		classes := map[string]bool{vs.class: true}

		var c *types.Commit
		if rapid.IntRange(0, 2).Draw(t, "from-voteset") == 0 {
			var maj types.BlockID
			c, maj = voteSetCommit(t, vs, h, r, main, hist)
			if c != nil {
				id = maj
				classes["commit:built-by-MakeCommit"] = true
				// never alias the vote set's own data
				sigs := make([]types.CommitSig, len(c.Signatures))
				for i, cs := range c.Signatures {
					cs.Signature = append([]byte(nil), cs.Signature...)
					sigs[i] = cs
				}
				c = types.NewCommit(c.Height, c.Round, c.BlockID, sigs)
			}
		}
		if c == nil {
			c = handCommit(t, vs, h, r, id)
			classes["commit:built-by-hand"] = true
		}
		hist.add("commit[%s]", flagsText(c))

		verifySet, argID, argH, argChain := vs, id, h, chainID
		nmut := rapid.SampledFrom([]int{0, 0, 1, 1, 1, 1, 2}).Draw(t, "nmut")
		for k := 0; k < nmut; k++ {
			mu := rapid.SampledFrom(commitMutations).Draw(t, "mut")
			pos := rapid.IntRange(0, len(c.Signatures)).Draw(t, "pos")
			if pos >= len(c.Signatures) {
				pos = len(c.Signatures) - 1
			}
			desc := mu
			switch mu {
			case "size-1":
				if len(c.Signatures) == 0 {
					continue
				}
				c.Signatures = c.Signatures[:len(c.Signatures)-1]
			case "size+1":
				extra := types.NewCommitSigAbsent()
				if rapid.Bool().Draw(t, "extra-signed") { // a genuine signature of a validator of the set, in a position the set does not have
					extra = honestSig(vs, chainID, rapid.IntRange(0, n-1).Draw(t, "extra-val"), types.BlockIDFlagCommit, c.Height, c.Round, c.BlockID, baseTS)
				}
				c.Signatures = append(c.Signatures, extra)
			case "height-field": // the commit says another height; its signatures stay what they were
				c.Height = uint64(rapid.SampledFrom([]int{0, int(h) + 1, int(h) + 2}).Draw(t, "ch"))
			case "height-whole": // a genuine commit of another height for the same id, offered for this height
				h2 := h + 1
				for i := range c.Signatures {
					if i < n {
						c.Signatures[i] = honestSig(vs, chainID, i, c.Signatures[i].BlockIDFlag, h2, c.Round, c.BlockID, baseTS)
					}
				}
				c.Height = h2
				if rapid.Bool().Draw(t, "relabel") {
					c.Height = h
					desc += ":relabelled"
				}
			case "id-field": // the commit names a neighbouring id; its signatures stay what they were
				bit := 1 << uint(rapid.IntRange(0, 2).Draw(t, "idbit"))
				c.BlockID = idPool[1+((main-1)^bit)].id
				if rapid.IntRange(0, 5).Draw(t, "nilid") == 0 {
					c.BlockID = types.BlockID{}
				}
				desc += ":" + idName(c.BlockID)
			case "id-whole": // a genuine commit for a neighbouring id, offered for this one
				bit := 1 << uint(rapid.IntRange(0, 2).Draw(t, "idbit"))
				nid := idPool[1+((main-1)^bit)].id
				for i := range c.Signatures {
					if i < n {
						c.Signatures[i] = honestSig(vs, chainID, i, c.Signatures[i].BlockIDFlag, c.Height, c.Round, nid, baseTS)
					}
				}
				c.BlockID = nid
				if rapid.Bool().Draw(t, "relabel") {
					c.BlockID = argID
					desc += ":relabelled"
				}
				desc += ":" + idName(nid)
			case "round-field":
				c.Round = c.Round + 1
			case "bad-sig":
				if pos < 0 || c.Signatures[pos].BlockIDFlag == types.BlockIDFlagAbsent {
					continue
				}
				km := rapid.IntRange(0, len(sigMutNames)-1).Draw(t, "sigmut")
				c.Signatures[pos].Signature = mutateSig(c.Signatures[pos].Signature, km)
				desc += fmt.Sprintf("@%d:%s", pos, sigMutNames[km])
			case "foreign-sig": // a genuine signature, but not the one this position needs
				if pos < 0 || pos >= n || c.Signatures[pos].BlockIDFlag == types.BlockIDFlagAbsent {
					continue
				}
				cs := &c.Signatures[pos]
				signedID := c.BlockID
				if cs.BlockIDFlag == types.BlockIDFlagNil {
					signedID = types.BlockID{}
				}
				switch w := rapid.IntRange(0, 4).Draw(t, "foreign"); w {
				case 0: // by the neighbouring validator
					j := (pos + 1) % n
					cs.Signature = sign(vs.vals[j].key, signHash(chainID, kproto.PrecommitType, c.Height, c.Round, signedID, cs.Timestamp))
					desc += fmt.Sprintf("@%d:by-validator-%d", pos, j)
				case 1: // for another chain
					cs.Signature = sign(vs.vals[pos].key, signHash(otherChain, kproto.PrecommitType, c.Height, c.Round, signedID, cs.Timestamp))
					desc += fmt.Sprintf("@%d:other-chain", pos)
				case 2: // for another round
					cs.Signature = sign(vs.vals[pos].key, signHash(chainID, kproto.PrecommitType, c.Height, c.Round+1, signedID, cs.Timestamp))
					desc += fmt.Sprintf("@%d:other-round", pos)
				case 3: // for another height
					cs.Signature = sign(vs.vals[pos].key, signHash(chainID, kproto.PrecommitType, c.Height+1, c.Round, signedID, cs.Timestamp))
					desc += fmt.Sprintf("@%d:other-height", pos)
				default: // for a neighbouring id
					bit := 1 << uint(rapid.IntRange(0, 2).Draw(t, "idbit"))
					cs.Signature = sign(vs.vals[pos].key, signHash(chainID, kproto.PrecommitType, c.Height, c.Round, idPool[1+((main-1)^bit)].id, cs.Timestamp))
					desc += fmt.Sprintf("@%d:other-id", pos)
				}
			case "address": // signer address not matching the index (the signature is still the index's validator's)
				if pos < 0 || c.Signatures[pos].BlockIDFlag == types.BlockIDFlagAbsent {
					continue
				}
				c.Signatures[pos].ValidatorAddress = vs.vals[(pos+1)%n].addr
				if n == 1 || rapid.Bool().Draw(t, "outsider") {
					c.Signatures[pos].ValidatorAddress = common.BytesToAddress([]byte{0xee, byte(pos)})
				}
				desc += fmt.Sprintf("@%d", pos)
			case "flag-swap": // the entry claims the other thing than was signed
				if pos < 0 {
					continue
				}
				switch c.Signatures[pos].BlockIDFlag {
				case types.BlockIDFlagCommit:
					c.Signatures[pos].BlockIDFlag = types.BlockIDFlagNil
				case types.BlockIDFlagNil:
					c.Signatures[pos].BlockIDFlag = types.BlockIDFlagCommit
				default:
					continue
				}
				desc += fmt.Sprintf("@%d", pos)
			case "dup-signer": // one validator's entry copied into another position
				if pos < 0 || len(c.Signatures) < 2 {
					continue
				}
				to := (pos + 1 + rapid.IntRange(0, len(c.Signatures)-2).Draw(t, "to")) % len(c.Signatures)
				c.Signatures[to] = c.Signatures[pos]
				c.Signatures[to].Signature = append([]byte(nil), c.Signatures[pos].Signature...)
				desc += fmt.Sprintf(":%d->%d", pos, to)
			case "bad-flag":
				if pos < 0 {
					continue
				}
				c.Signatures[pos].BlockIDFlag = rapid.SampledFrom([]types.BlockIDFlag{0, 4, 255}).Draw(t, "badflag")
				desc += fmt.Sprintf("@%d", pos)
			case "absent-leftover": // "absent" that still carries the validator's data
				if pos < 0 || c.Signatures[pos].BlockIDFlag == types.BlockIDFlagAbsent {
					continue
				}
				c.Signatures[pos].BlockIDFlag = types.BlockIDFlagAbsent
				desc += fmt.Sprintf("@%d", pos)
			case "timestamp": // timestamp altered after signing
				if pos < 0 || c.Signatures[pos].BlockIDFlag == types.BlockIDFlagAbsent {
					continue
				}
				c.Signatures[pos].Timestamp = c.Signatures[pos].Timestamp.Add(time.Second)
				desc += fmt.Sprintf("@%d", pos)
			case "other-chain": // a genuine commit of this chain offered to a verifier of another chain
				argChain = otherChain
			case "other-set": // verified against another validator set than the one that signed
				ks := make([]int, n)
				ps := make([]int64, n)
				for i, v := range vs.vals {
					ks[i], ps[i] = v.key, v.power
				}
				switch w := rapid.IntRange(0, 3).Draw(t, "setmut"); {
				case w == 0 && n > 1: // same members, powers rotated
					first := ps[0]
					copy(ps, ps[1:])
					ps[n-1] = first
					desc += ":powers-rotated"
				case w == 1: // one member replaced by an outsider (positions may shift: the set is ordered by address)
					out := outsiderKey(vs)
					if out < 0 {
						continue
					}
					j := rapid.IntRange(0, n-1).Draw(t, "member")
					ks[j] = out
					desc += fmt.Sprintf(":member%d-replaced", j)
				case w == 2 && n > 1: // one member less
					ks, ps = ks[:n-1], ps[:n-1]
					desc += ":one-less"
				default: // one validator's power changed by one
					j := rapid.IntRange(0, n-1).Draw(t, "member")
					if ps[j] > 1 && rapid.Bool().Draw(t, "down") {
						ps[j]--
					} else if vs.total.Cmp(big.NewInt(types.MaxTotalVotingPower)) < 0 {
						ps[j]++
					} else {
						continue
					}
					desc += fmt.Sprintf(":power%d-changed", j)
				}
				verifySet = buildValSet(ks, ps, vs.class)
				desc += ":" + verifySet.desc
			}
			hist.add("mut:%s", desc)
			classes["mut:"+mu] = true
		}
		hist.add("final[%s] cheight=%d cround=%d cid=%s", flagsText(c), c.Height, c.Round, idName(c.BlockID))

		var err error
		if callGuard(t, hist.text, func() { err = verifySet.set.VerifyCommit(argChain, argID, argH, c) }) {
			err = fmt.Errorf("panic (known finding)")
			classes["known-panic"] = true
		}
		accepted := err == nil
		p := commitPredicate(verifySet, argChain, argID, argH, c)
		wf := wellFormed(verifySet, argChain, argID, argH, c)
		if accepted && !p.quorum {
			key := acceptKey(verifySet, p.power, p.nonAbsent)
			ev.Violation(t, key, hist.text(), "VerifyCommit accepted, but the validators at the commit's indices that genuinely signed %s at h=%d r=%d hold %v of %v (non-absent %v)",
				idName(argID), argH, c.Round, p.power, verifySet.total, p.nonAbsent)
		}
		if wf && p.quorum && !accepted {
			ev.Violation(t, keyRejectQuorum, hist.text(), "well-formed commit with %v of %v signed for %s rejected: %v", p.power, verifySet.total, idName(argID), err)
		}
		switch {
		case accepted:
			classes["commit:accepted"] = true
		case wf:
			classes["commit:wellformed-below-quorum-rejected"] = true
		case p.quorum:
			classes["commit:illformed-with-quorum-rejected"] = true
		default:
			classes["commit:illformed-rejected"] = true
		}
		if p.exactlyTwo3 {
			classes["commit:exactly-two-thirds"] = true
		}
		// near the boundary: within one (largest) validator's power
		d := new(big.Int).Mul(p.power, big.NewInt(3))
		d.Sub(d, new(big.Int).Mul(verifySet.total, big.NewInt(2)))
		near := d.Abs(d).Cmp(new(big.Int).Mul(big.NewInt(verifySet.maxP), big.NewInt(3))) <= 0
		if near {
			classes["tally-near-threshold"] = true
		}
		var cl []string
		for k := range classes {
			cl = append(cl, k)
		}
		sort.Strings(cl)
		nontrivial := near && (nmut > 0 || strings.ContainsAny(flagsText(c), "AN"))
		ev.Case(nontrivial, hist.text(), cl...)
		if nontrivial && ev.WantSample("commit") {
			ev.Sample("commit", hist.text())
		}
	})
}

// acceptKey names what an unjustified acceptance looks like, when that is unambiguous: one unit of power short of a
// quorum (a rounding / comparison slip), or a quorum only if nil/absent entries are counted as well.
func acceptKey(vs *valSet, forBlock, withOthers *big.Int) string {
	offByOne := vs.quorum(new(big.Int).Add(forBlock, big.NewInt(1)))
	others := vs.quorum(withOthers)
	switch {
	case offByOne && !others:
		return keyAcceptBoundary
	case others && !offByOne:
		return keyAcceptNil
	}
	return keyAcceptNoQuorum
}

func outsiderKey(vs *valSet) int {
	for c := 0; c < nKeys; c++ {
		in := false
		for _, x := range vs.vals {
			in = in || x.key == c
		}
		if !in {
			return c
		}
	}
	return -1
}
