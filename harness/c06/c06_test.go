// C06 — block execution is deterministic: same block, same parent state, same result.
//
// TestBlockDeterminism: generated chains of real blocks (product-made headers, commits really signed by the generated
// validators, transactions from the C09 grammar plus staking-contract calls that change the validator set) are executed
// by the product's own BlockExecutor.ApplyBlock on several fresh nodes that differ in cache configuration ({snapshots} x
// {TrieDirtyDisabled} x {preimages} x {prefetcher flag}, two of them identical), in whether they made the block
// themselves (from their transaction pool through CreateProposalBlock) or received it (decoded from its protobuf
// bytes), and in nothing else. Every node must return the same application hash, validator list, receipts, bloom, gas
// and end in the same LatestBlockState; every block made by one node must pass ValidateBlock + ApplyBlock on all others.
// TestCrossProcess repeats a fixed set of generated cases in two separately started processes and compares digests.
// TestValidatorUpdateOrder feeds the validator-update computation every permutation of the application's validator list.
package c06

import (
	"bytes"
	"crypto/ecdsa"
	"crypto/sha256"
	"fmt"
	"math/big"
	"os"
	"sort"
	"strings"
	"testing"
	"time"

	"pgregory.net/rapid"

	"github.com/kardiachain/go-kardia/configs"
	"github.com/kardiachain/go-kardia/kai/accounts/abi"
	"github.com/kardiachain/go-kardia/kai/state/cstate"
	"github.com/kardiachain/go-kardia/kvm"
	"github.com/kardiachain/go-kardia/lib/common"
	"github.com/kardiachain/go-kardia/lib/rlp"
	"github.com/kardiachain/go-kardia/mainchain/blockchain"
	"github.com/kardiachain/go-kardia/mainchain/staking"
	"github.com/kardiachain/go-kardia/types"

	"verifharness/c09/kit"
	"verifharness/internal/ev"
	"verifharness/internal/netsim"
)

func TestMain(m *testing.M) {
	ev.Init("C06")
	rc := m.Run()
	ev.Flush()
	os.Exit(rc)
}

// ------------------------------------------------------------------------------------------------ node configurations

type nodeCfg struct {
	Default                            bool // the product's default cache configuration (nil)
	Snap, Archive, Preimages, NoPrefet bool
}

func (c nodeCfg) String() string {
	if c.Default {
		return "default"
	}
	b := func(x bool) byte {
		if x {
			return '1'
		}
		return '0'
	}
	return fmt.Sprintf("snap%c-archive%c-preimg%c-noprefetch%c", b(c.Snap), b(c.Archive), b(c.Preimages), b(c.NoPrefet))
}

func (c nodeCfg) cache() *blockchain.CacheConfig {
	if c.Default {
		return nil
	}
	cc := &blockchain.CacheConfig{TrieCleanLimit: 16, TrieDirtyLimit: 16, TrieTimeLimit: 5 * time.Minute, SnapshotWait: true,
		TrieDirtyDisabled: c.Archive, Preimages: c.Preimages, TrieCleanNoPrefetch: c.NoPrefet}
	if c.Snap {
		cc.SnapshotLimit = 16
	}
	return cc
}

func drawCfg(t *rapid.T) nodeCfg {
	if rapid.IntRange(0, 7).Draw(t, "defaultcfg") == 0 {
		return nodeCfg{Default: true}
	}
	return nodeCfg{Snap: rapid.Bool().Draw(t, "snap"), Archive: rapid.Bool().Draw(t, "archive"), Preimages: rapid.Bool().Draw(t, "preimages"), NoPrefet: rapid.Bool().Draw(t, "noprefetch")}
}

// ------------------------------------------------------------------------------------------------ observations

type observed struct {
	res   kit.Result
	info  *types.BlockInfo
	state cstate.LatestBlockState
	err   error
}

// valsText renders the validator list the application returned as a set (sorted by address): the order in which the
// application reports validators is explicitly not part of the result.
func valsText(vs []*types.Validator) string {
	var s []string
	for _, v := range vs {
		s = append(s, fmt.Sprintf("%x:%d", v.Address[:4], v.VotingPower))
	}
	sort.Strings(s)
	return strings.Join(s, ",")
}

func receiptDiff(a, b *types.Receipt) string {
	switch {
	case a.TxHash != b.TxHash:
		return fmt.Sprintf("tx hash %x vs %x", a.TxHash[:4], b.TxHash[:4])
	case a.Status != b.Status:
		return fmt.Sprintf("status %d vs %d", a.Status, b.Status)
	case a.GasUsed != b.GasUsed:
		return fmt.Sprintf("gas used %d vs %d", a.GasUsed, b.GasUsed)
	case a.CumulativeGasUsed != b.CumulativeGasUsed:
		return fmt.Sprintf("cumulative gas %d vs %d", a.CumulativeGasUsed, b.CumulativeGasUsed)
	case a.Bloom != b.Bloom:
		return "receipt bloom"
	case a.ContractAddress != b.ContractAddress:
		return "contract address"
	case len(a.Logs) != len(b.Logs):
		return fmt.Sprintf("%d logs vs %d", len(a.Logs), len(b.Logs))
	}
	for i := range a.Logs {
		x, y := a.Logs[i], b.Logs[i]
		if x.Address != y.Address || !bytes.Equal(x.Data, y.Data) || len(x.Topics) != len(y.Topics) {
			return fmt.Sprintf("log %d", i)
		}
		for j := range x.Topics {
			if x.Topics[j] != y.Topics[j] {
				return fmt.Sprintf("log %d topic %d", i, j)
			}
		}
	}
	return ""
}

// diff returns the finding key and a description of the first difference between two observations of the same block.
func diff(a, b observed) (string, string) {
	if (a.err == nil) != (b.err == nil) {
		return "block.accepted-by-one-rejected-by-other", fmt.Sprintf("error %v vs %v", a.err, b.err)
	}
	if a.err != nil {
		return "", ""
	}
	if a.res.Root != b.res.Root {
		return "apphash.differs", fmt.Sprintf("application hash %x vs %x", a.res.Root[:8], b.res.Root[:8])
	}
	if x, y := valsText(a.res.Vals), valsText(b.res.Vals); x != y {
		return "validators.returned-set-differs", fmt.Sprintf("validators returned by the application {%s} vs {%s}", x, y)
	}
	if a.info.GasUsed != b.info.GasUsed {
		return "gas.differs", fmt.Sprintf("block gas used %d vs %d", a.info.GasUsed, b.info.GasUsed)
	}
	if a.info.Bloom != b.info.Bloom {
		return "bloom.differs", "block logs bloom differs"
	}
	if (a.info.Rewards == nil) != (b.info.Rewards == nil) || (a.info.Rewards != nil && a.info.Rewards.Cmp(b.info.Rewards) != 0) {
		return "reward.differs", fmt.Sprintf("block reward %v vs %v", a.info.Rewards, b.info.Rewards)
	}
	if len(a.info.Receipts) != len(b.info.Receipts) {
		return "receipts.differ", fmt.Sprintf("%d receipts vs %d", len(a.info.Receipts), len(b.info.Receipts))
	}
	for i := range a.info.Receipts {
		if d := receiptDiff(a.info.Receipts[i], b.info.Receipts[i]); d != "" {
			return "receipts.differ", fmt.Sprintf("receipt %d: %s", i, d)
		}
	}
	if !bytes.Equal(a.state.Bytes(), b.state.Bytes()) {
		what := "other field"
		switch {
		case a.state.AppHash != b.state.AppHash:
			what = "AppHash"
		case !bytes.Equal(a.state.NextValidators.Hash().Bytes(), b.state.NextValidators.Hash().Bytes()):
			what = "NextValidators membership/power"
		case setText(a.state.NextValidators) != setText(b.state.NextValidators):
			what = "NextValidators priorities/proposer"
		case a.state.LastHeightValidatorsChanged != b.state.LastHeightValidatorsChanged:
			what = "LastHeightValidatorsChanged"
		}
		return "state.differs", "resulting LatestBlockState differs in " + what
	}
	return "", ""
}

func digest(o observed) string {
	h := sha256.New()
	if o.err != nil {
		fmt.Fprintf(h, "err")
		return fmt.Sprintf("%x", h.Sum(nil)[:12])
	}
	h.Write(o.res.Root[:])
	h.Write([]byte(valsText(o.res.Vals)))
	bi, _ := rlp.EncodeToBytes(o.info)
	h.Write(bi)
	h.Write(o.state.Bytes())
	return fmt.Sprintf("%x", h.Sum(nil)[:12])
}

// ------------------------------------------------------------------------------------------------ staking calls

type stakingKit struct {
	su   *staking.StakingSmcUtil
	vabi abi.ABI
}

func newStakingKit() (*stakingKit, error) {
	su, err := staking.NewSmcStakingUtil()
	if err != nil {
		return nil, err
	}
	va, err := abi.JSON(strings.NewReader(configs.GetContractABIByType(configs.ValidatorContractKey)))
	if err != nil {
		return nil, err
	}
	return &stakingKit{su: su, vabi: va}, nil
}

var e24 = new(big.Int).Exp(big.NewInt(10), big.NewInt(24), nil)

// targets lists the staking calls available on the given replica's current head: delegation to / undelegation from every
// validator contract, a new validator (create, start) owned by funded account 1, owner calls by the validators themselves.
func (sk *stakingKit) targets(r *kit.Replica, w *kit.World) []kit.Target {
	st, err := r.StateAt(r.HeadRoot())
	if err != nil {
		return nil
	}
	hdr := r.BC.CurrentBlock().Header()
	vcs, err := sk.su.GetAllValContracts(st, hdr, r.BC, kvm.Config{})
	if err != nil {
		return nil
	}
	pack := func(name string, args ...interface{}) []byte {
		b, err := sk.vabi.Pack(name, args...)
		if err != nil {
			panic(err)
		}
		return b
	}
	var out []kit.Target
	for i, vc := range vcs {
		if i >= 5 {
			break
		}
		out = append(out,
			kit.Target{Name: fmt.Sprintf("delegate%d", i), Addr: vc, Data: pack("delegate"), Value: new(big.Int).Mul(e24, big.NewInt(int64(1+i))), Gas: 5000000},
			kit.Target{Name: fmt.Sprintf("undelegate-amount%d", i), Addr: vc, Data: pack("undelegateWithAmount", e24), Gas: 5000000},
			kit.Target{Name: fmt.Sprintf("undelegate-all%d", i), Addr: vc, Data: pack("undelegate"), Gas: 5000000},
			kit.Target{Name: fmt.Sprintf("withdraw-rewards%d", i), Addr: vc, Data: pack("withdrawRewards"), Gas: 5000000},
		)
	}
	for i, k := range w.ValKeys {
		vc, _ := sk.su.GetValFromOwner(st, hdr, r.BC, kvm.Config{}, kit.Addr(k))
		if vc == (common.Address{}) {
			continue
		}
		out = append(out,
			kit.Target{Name: fmt.Sprintf("owner-stop%d", i), Addr: vc, Data: pack("stop"), Gas: 5000000, From: k},
			kit.Target{Name: fmt.Sprintf("owner-undelegate%d", i), Addr: vc, Data: pack("undelegateWithAmount", new(big.Int).Mul(e24, big.NewInt(2))), Gas: 5000000, From: k},
			kit.Target{Name: fmt.Sprintf("owner-commission%d", i), Addr: vc, Data: pack("withdrawCommission"), Gas: 5000000, From: k},
		)
	}
	if len(w.Funded) > 1 {
		k := w.Funded[1]
		vc, _ := sk.su.GetValFromOwner(st, hdr, r.BC, kvm.Config{}, kit.Addr(k))
		if vc == (common.Address{}) {
			var name [32]byte
			copy(name[:], "generated-validator")
			data, err := sk.su.Abi.Pack("createValidator", name, big.NewInt(100000000000000000), big.NewInt(250000000000000000), big.NewInt(50000000000000000))
			if err == nil {
				out = append(out, kit.Target{Name: "create-validator", Addr: sk.su.ContractAddress, Data: data, Value: new(big.Int).Mul(e24, big.NewInt(20)), Gas: 6000000, From: k})
			}
		} else {
			out = append(out, kit.Target{Name: "new-validator-start", Addr: vc, Data: pack("start"), Gas: 5000000, From: k},
				kit.Target{Name: "new-validator-stop", Addr: vc, Data: pack("stop"), Gas: 5000000, From: k})
		}
	}
	return out
}

// ------------------------------------------------------------------------------------------------ the check

var storageWriters = []string{"store", "clear1", "clear2", "r-store-call", "create:store-ret", "extra:"}

func TestBlockDeterminism(t *testing.T) {
	netsim.Quiet()
	maxTxs := ev.Scale("TXS", 8)
	maxBlocks := ev.Scale("BLOCKS", 4)
	nReplicas := ev.Scale("REPLICAS", 4)
	kit.NewWorld([]int64{15}, 0, nil) // loads the genesis contracts the staking utilities read their ABIs from
	sk, err := newStakingKit()
	if err != nil {
		t.Fatalf("harness: %v", err)
	}
	digestOut := os.Getenv("VERIF_C06_DIGESTS")
	rapid.Check(t, func(t *rapid.T) {
		nval := rapid.IntRange(1, 4).Draw(t, "validators")
		powers := make([]int64, nval)
		for i := range powers {
			powers[i] = int64(rapid.SampledFrom([]int{15, 15, 30, 45}).Draw(t, "power"))
		}
		galName := rapid.SampledFrom([]string{"never", "never", "always", "always", "at-2", "at-3"}).Draw(t, "galaxias")
		var gal *uint64
		switch galName {
		case "always":
			gal = new(uint64)
		case "at-2":
			g := uint64(2)
			gal = &g
		case "at-3":
			g := uint64(3)
			gal = &g
		}
		w := kit.NewWorld(powers, 3, gal)
		ts := kit.Templates()
		kit.InstallGenesis(w.G, ts)
		// node 0 and node 1 have the same configuration (pure repetition), the others are drawn
		cfgs := []nodeCfg{drawCfg(t)}
		cfgs = append(cfgs, cfgs[0])
		for len(cfgs) < nReplicas {
			cfgs = append(cfgs, drawCfg(t))
		}
		var nodes []*kit.Replica
		var names []string
		for i, c := range cfgs {
			var r *kit.Replica
			var err error
			ev.Guard(t, nil, func() { r, err = w.NewReplica(i, c.cache(), nil) })
			if err != nil {
				t.Fatalf("harness: %v", err)
			}
			defer r.Close()
			nodes = append(nodes, r)
			names = append(names, c.String())
		}
		lines := []string{fmt.Sprintf("powers=%v galaxias=%s nodes=%v", powers, galName, names)}
		text := func() string { return strings.Join(lines, "\n") }
		classes := map[string]bool{"galaxias:" + galName: true, fmt.Sprintf("validators=%d", nval): true}
		distinctCfg := map[string]bool{}
		for _, n := range names {
			distinctCfg[n] = true
		}
		classes[fmt.Sprintf("distinct-configs=%d", len(distinctCfg))] = true
		nontrivial := false
		nblocks := rapid.IntRange(1, maxBlocks).Draw(t, "blocks")
		senders := append(append([]*ecdsa.PrivateKey{}, w.Funded...), w.ValKeys...)
		for bn := 0; bn < nblocks; bn++ {
			pi := rapid.IntRange(0, len(nodes)-1).Draw(t, "proposerNode")
			P := nodes[pi]
			height := P.Height() + 1
			isGal := w.G.Config.IsGalaxias(&height)
			mode := rapid.SampledFrom([]string{"pool", "pool-local", "hand", "hand"}).Draw(t, "mode")
			if digestOut != "" {
				// cross-process children: a pool-made block orders senders by Go map iteration (the proposer's free choice), which
				// would make the two processes build different chains; they compare executions of identical blocks instead
				mode = "hand"
			}
			absent := -1
			if P.State.Validators.Size() >= 3 && rapid.IntRange(0, 3).Draw(t, "absent") == 0 {
				absent = rapid.IntRange(0, P.State.Validators.Size()-1).Draw(t, "absentIdx")
				_, v := P.State.Validators.GetByIndex(uint32(absent))
				if (P.State.Validators.TotalVotingPower()-v.VotingPower)*3 <= P.State.Validators.TotalVotingPower()*2 {
					absent = -1
				}
			}
			popts := kit.ProposeOpts{Proposer: -1, AbsentNew: func(i int) bool { return i == absent }}
			lines = append(lines, fmt.Sprintf("block %d by node %d (%s) mode=%s galaxias=%v absent=%d", height, pi, names[pi], mode, isGal, absent))

			// draw the transactions against a scratch copy of the proposer's head state
			var dA *kit.Draft
			var err error
			ev.Guard(t, text, func() { dA, err = P.Draft(popts) })
			if err != nil {
				t.Fatalf("harness: %v", err)
			}
			hdr := dA.Block.Header()
			scratch, err := P.StateAt(P.HeadRoot())
			if err != nil {
				t.Fatalf("harness: %v", err)
			}
			gp := new(types.GasPool).AddGas(hdr.GasLimit)
			gctx := &kit.GenCtx{T: ts, Senders: senders, ChainID: w.G.Config.ChainID, Galaxias: isGal, BigLate: rapid.IntRange(0, 7).Draw(t, "biglate") == 0}
			if rapid.IntRange(0, 2).Draw(t, "staking") > 0 {
				gctx.Extra = sk.targets(P, w)
				gctx.ExtraPct = 35
			}
			ntx := rapid.IntRange(0, maxTxs).Draw(t, "ntx")
			var txs []*types.Transaction
			var shapes []string
			writes, failing, skipped := false, false, false
			for i := 0; i < ntx; i++ {
				d := gctx.Draw(t, scratch, gp.Gas())
				lines = append(lines, d.Text)
				var ex bool
				var rc *types.Receipt
				ev.Guard(t, text, func() { ex, rc = kit.Advance(w.G.Config, P.BC, scratch, gp, hdr, d.Tx, i) })
				txs = append(txs, d.Tx)
				shapes = append(shapes, d.Shape)
				if !ex {
					skipped = true
				} else if rc.Status == types.ReceiptStatusFailed {
					failing = true
				} else {
					for _, sw := range storageWriters {
						for _, p := range append([]string{d.Shape}, d.Path...) {
							if strings.HasPrefix(p, sw) || strings.HasPrefix(d.Shape, sw) {
								writes = true
							}
						}
					}
				}
			}

			// make the block
			var e *kit.Entry
			switch mode {
			case "hand":
				ev.Guard(t, text, func() { e, err = P.SealWith(dA, txs) })
			default:
				var errs []error
				ev.Guard(t, text, func() {
					var d2 *kit.Draft
					d2, errs, err = P.DraftFromPool(txs, mode == "pool-local", popts)
					if err == nil {
						e, err = P.Seal(d2)
					}
				})
				refused := 0
				for _, x := range errs {
					if x != nil {
						refused++
					}
				}
				if e != nil {
					lines = append(lines, fmt.Sprintf("  pool refused %d of %d, block carries %d", refused, len(txs), len(e.Block.Transactions())))
				}
			}
			if err != nil || e == nil {
				t.Fatalf("harness: making the block: %v", err)
			}
			recv, err := e.Received()
			if err != nil {
				t.Fatalf("harness: %v", err)
			}

			// every node executes it
			var obs []observed
			prevNext := P.State.NextValidators.Hash()
			for i, nd := range nodes {
				use := recv
				if i == pi || rapid.IntRange(0, 3).Draw(t, "sameObject") == 0 {
					use = e // the proposer keeps its own object; sometimes another node shares it (warm caches inside the block)
				}
				var o observed
				ev.Guard(t, text, func() { o.res, o.err = nd.Apply(use) })
				if o.err != nil {
					ev.Violation(t, "proposer-block.rejected", text(), "block %d made by node %d (%s) was not accepted by node %d (%s): %v", height, pi, names[pi], i, names[i], o.err)
				}
				if o.info, err = nd.BlockInfo(use); err != nil {
					ev.Violation(t, "blockinfo.missing", text(), "block %d: node %d (%s) stored no block info: %v", height, i, names[i], err)
				}
				o.state = nd.State
				obs = append(obs, o)
			}
			for i := 1; i < len(obs); i++ {
				if key, what := diff(obs[0], obs[i]); key != "" {
					ev.Violation(t, key, text(), "block %d: node 0 (%s) and node %d (%s) disagree: %s", height, names[0], i, names[i], what)
				}
			}
			if digestOut != "" {
				appendLine(digestOut, fmt.Sprintf("%x %s\n", e.Block.Hash().Bytes(), digest(obs[0])))
			}
			changed := !bytes.Equal(prevNext.Bytes(), nodes[0].State.NextValidators.Hash().Bytes())
			if len(e.Block.Transactions()) > len(obs[0].info.Receipts) {
				skipped = true
				classes["block-with-skipped-tx"] = true
			}
			if failing {
				classes["block-with-failing-tx"] = true
			}
			if writes {
				classes["block-with-storage-write"] = true
			}
			if changed {
				classes["validator-set-change"] = true
				if nodes[0].State.NextValidators.Size() != P.State.Validators.Size() {
					classes["validator-set-size-change"] = true
				}
			}
			classes["mode:"+mode] = true
			for _, s := range shapes {
				if strings.HasPrefix(s, "extra:") {
					classes["staking-call"] = true
				}
			}
			if (writes && (skipped || failing)) || changed {
				nontrivial = true
			}
			lines = append(lines, fmt.Sprintf("  -> root %x receipts %d/%d gas %d vals [%s] next-changed=%v", obs[0].res.Root[:6], len(obs[0].info.Receipts), len(e.Block.Transactions()), obs[0].info.GasUsed, valsText(obs[0].res.Vals), changed))
		}
		// the next block's AppHash / validator-hash check: a block drafted by any node on the final state passes everywhere
		pi := rapid.IntRange(0, len(nodes)-1).Draw(t, "finalProposer")
		var last *kit.Entry
		var err error
		ev.Guard(t, text, func() { last, err = nodes[pi].Propose(kit.ProposeOpts{Proposer: -1, UseTxs: true}) })
		if err != nil {
			t.Fatalf("harness: %v", err)
		}
		for i, nd := range nodes {
			var verr error
			ev.Guard(t, text, func() { verr = nd.Exec.ValidateBlock(nd.State, last.Block) })
			if verr != nil {
				ev.Violation(t, "next-block.rejected", text(), "the block following the chain, made by node %d (%s), fails ValidateBlock on node %d (%s): %v", pi, names[pi], i, names[i], verr)
			}
		}
		var cl []string
		for c := range classes {
			cl = append(cl, c)
		}
		sort.Strings(cl)
		ev.Case(nontrivial, text(), cl...)
		if nontrivial && ev.WantSample("chain") {
			ev.Sample("chain", lines)
		}
	})
}

func appendLine(path, s string) {
	f, err := os.OpenFile(path, os.O_APPEND|os.O_CREATE|os.O_WRONLY, 0o644)
	if err != nil {
		return
	}
	f.WriteString(s)
	f.Close()
}
