package c06

import (
	"fmt"
	"strings"
	"testing"
	"time"

	"pgregory.net/rapid"

	"github.com/kardiachain/go-kardia/kai/state/cstate"
	"github.com/kardiachain/go-kardia/lib/common"
	"github.com/kardiachain/go-kardia/lib/log"
	"github.com/kardiachain/go-kardia/types"

	"verifharness/internal/ev"
	"verifharness/internal/netsim"
)

func permutations(n int) [][]int {
	if n == 0 {
		return [][]int{{}}
	}
	var out [][]int
	var rec func(cur []int, used []bool)
	rec = func(cur []int, used []bool) {
		if len(cur) == n {
			out = append(out, append([]int{}, cur...))
			return
		}
		for i := 0; i < n; i++ {
			if !used[i] {
				used[i] = true
				rec(append(cur, i), used)
				used[i] = false
			}
		}
	}
	rec(nil, make([]bool, n))
	return out
}

func setText(vs *types.ValidatorSet) string {
	if vs == nil {
		return "nil"
	}
	var s []string
	for _, v := range vs.Validators {
		s = append(s, fmt.Sprintf("%x:%d/%d", v.Address[:3], v.VotingPower, v.ProposerPriority))
	}
	p := "none"
	if pr := vs.GetProposer(); pr != nil {
		p = fmt.Sprintf("%x", pr.Address[:3])
	}
	return strings.Join(s, ",") + " proposer=" + p
}

// TestValidatorUpdateOrder: ApplyBlock turns the validator list the application returns into consensus updates with
// calculateValidatorSetUpdates and applies them with updateState. Whatever order the application lists its validators
// in (<= 5 entries, every permutation, each evaluated twice because removals are collected by ranging over a Go map),
// the resulting NextValidators must be the same set with the same priorities and proposer.
func TestValidatorUpdateOrder(t *testing.T) {
	netsim.Quiet()
	rapid.Check(t, func(t *rapid.T) {
		// current validator set: 1..5 validators, rotated a drawn number of times
		n := rapid.IntRange(1, 5).Draw(t, "n")
		var cur []*types.Validator
		addr := func(i int) common.Address { return common.BytesToAddress([]byte{0xa0, byte(i), byte(i * 7)}) }
		for i := 0; i < n; i++ {
			cur = append(cur, types.NewValidator(addr(i), int64(rapid.SampledFrom([]int{1, 10, 15, 15, 30, 1000}).Draw(t, "power"))))
		}
		next := types.NewValidatorSet(cur)
		if r := rapid.IntRange(0, 6).Draw(t, "rotate"); r > 0 {
			next.IncrementProposerPriority(int64(r))
		}
		vals := next.Copy()
		last := next.Copy()
		// what the application reports: survivors (some with a changed power), newcomers; at most 5 entries, at least 1
		var app []*types.Validator
		var desc []string
		for i := 0; i < n; i++ {
			switch rapid.SampledFrom([]string{"keep", "keep", "change", "remove"}).Draw(t, "fate") {
			case "keep":
				app = append(app, types.NewValidator(addr(i), cur[i].VotingPower))
				desc = append(desc, fmt.Sprintf("keep%d", i))
			case "change":
				p := int64(rapid.SampledFrom([]int{1, 2, 15, 16, 31, 5000}).Draw(t, "newpower"))
				app = append(app, types.NewValidator(addr(i), p))
				desc = append(desc, fmt.Sprintf("change%d->%d", i, p))
			default:
				desc = append(desc, fmt.Sprintf("remove%d", i))
			}
		}
		for j := 0; len(app) < 5 && j < rapid.IntRange(0, 3).Draw(t, "newcomers"); j++ {
			p := int64(rapid.SampledFrom([]int{1, 15, 15, 40}).Draw(t, "joinpower"))
			app = append(app, types.NewValidator(addr(10+j), p))
			desc = append(desc, fmt.Sprintf("join%d:%d", j, p))
		}
		if len(app) == 0 {
			app = append(app, types.NewValidator(addr(0), cur[0].VotingPower))
			desc = append(desc, "keep0(forced)")
		}
		caseText := fmt.Sprintf("current=[%s] app=%v", setText(next), desc)
		st := cstate.LatestBlockState{ChainID: "verif", InitialHeight: 1, LastBlockHeight: 7, LastBlockTime: time.Unix(1700000000, 0).UTC(),
			NextValidators: next, Validators: vals, LastValidators: last, LastHeightValidatorsChanged: 1}
		hdr := &types.Header{Height: 8, Time: time.Unix(1700000005, 0).UTC()}
		var ref string
		var refErr string
		perms := permutations(len(app))
		for pi, perm := range perms {
			for rep := 0; rep < 2; rep++ {
				list := make([]*types.Validator, len(app))
				for i, j := range perm {
					list[i] = app[j].Copy()
				}
				var out cstate.LatestBlockState
				var err error
				ev.Guard(t, func() string { return caseText }, func() {
					ups := cstate.VerifC12CalculateValidatorSetUpdates(st.NextValidators.Validators, list)
					out, err = cstate.VerifC12UpdateState(log.New(), st.Copy(), types.BlockID{}, hdr, ups)
				})
				got, gotErr := "", ""
				if err != nil {
					gotErr = "error"
				} else {
					got = setText(out.NextValidators) + fmt.Sprintf(" changed@%d", out.LastHeightValidatorsChanged)
				}
				if pi == 0 && rep == 0 {
					ref, refErr = got, gotErr
					continue
				}
				if gotErr != refErr {
					ev.Violation(t, "validator-update.order-dependent-error", caseText, "order %v: error=%q, first order: error=%q (%v)", perm, gotErr, refErr, err)
				}
				if got != ref {
					ev.Violation(t, "validator-update.order-dependent", caseText, "application order %v gives NextValidators [%s], the first order gave [%s]", perm, got, ref)
				}
			}
		}
		removed, joined, changed := 0, 0, 0
		for _, d := range desc {
			switch {
			case strings.HasPrefix(d, "remove"):
				removed++
			case strings.HasPrefix(d, "join"):
				joined++
			case strings.HasPrefix(d, "change"):
				changed++
			}
		}
		classes := []string{"update-order", fmt.Sprintf("entries=%d", len(app))}
		if removed >= 2 {
			classes = append(classes, "two-or-more-removals")
		}
		if joined > 0 {
			classes = append(classes, "newcomer")
		}
		if refErr != "" {
			classes = append(classes, "update-rejected")
		}
		ev.Case(len(app) >= 2 && removed+joined+changed >= 2, caseText, classes...)
		if ev.WantSample("update-order") {
			ev.Sample("update-order", caseText+" => "+ref+refErr)
		}
	})
}
