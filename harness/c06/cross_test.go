package c06

import (
	"bufio"
	"fmt"
	"os"
	"os/exec"
	"path/filepath"
	"strings"
	"testing"

	"verifharness/internal/ev"
)

// TestCrossProcess: the same generated cases (same rapid seed) are executed by TestBlockDeterminism in two separately
// started processes (Go draws a new map-iteration seed per process); each records a digest of (application hash,
// validator list, block info, resulting LatestBlockState) per block hash. A block both processes built must have the
// same digest in both.
func TestCrossProcess(t *testing.T) {
	if os.Getenv("VERIF_C06_DIGESTS") != "" {
		t.Skip("child process")
	}
	n := ev.Scale("CROSS", 24)
	dir := t.TempDir()
	run := func(tag string) (map[string]string, []string, string, error) {
		out := filepath.Join(dir, tag+".digests")
		cmd := exec.Command(os.Args[0], "-test.run", "^TestBlockDeterminism$", "-test.count=1", fmt.Sprintf("-rapid.checks=%d", n), fmt.Sprintf("-rapid.seed=%d", ev.Seed()), "-rapid.shrinktime=1s")
		cmd.Dir = dir
		var env []string
		for _, e := range os.Environ() {
			if strings.HasPrefix(e, "VERIF_EV_OUT=") || strings.HasPrefix(e, "VERIF_INFLIGHT=") {
				continue
			}
			env = append(env, e)
		}
		cmd.Env = append(env, "VERIF_C06_DIGESTS="+out)
		b, err := cmd.CombinedOutput()
		m := map[string]string{}
		var order []string
		if f, e2 := os.Open(out); e2 == nil {
			sc := bufio.NewScanner(f)
			for sc.Scan() {
				p := strings.Fields(sc.Text())
				if len(p) == 2 {
					if _, dup := m[p[0]]; !dup {
						order = append(order, p[0])
					}
					m[p[0]] = p[1]
				}
			}
			f.Close()
		}
		return m, order, string(b), err
	}
	type res struct {
		m     map[string]string
		order []string
		out   string
		err   error
	}
	ch := make(chan res, 2)
	for _, tag := range []string{"a", "b"} {
		go func(tag string) {
			m, o, out, err := run(tag)
			ch <- res{m, o, out, err}
		}(tag)
	}
	a, b := <-ch, <-ch
	for _, r := range []res{a, b} {
		if r.err != nil {
			if strings.Contains(r.out, "VERIF-VIOLATION") {
				i := strings.Index(r.out, "VERIF-VIOLATION")
				ev.Violation(t, "crossprocess.child-violation", "", "a child process found a violation: %s", r.out[i:min(len(r.out), i+600)])
			}
			t.Fatalf("harness: child process failed: %v\n%s", r.err, r.out[max(0, len(r.out)-2000):])
		}
	}
	common := 0
	for _, k := range a.order {
		db, ok := b.m[k]
		if !ok {
			continue
		}
		common++
		if a.m[k] != db {
			ev.Violation(t, "crossprocess.digest-differs", "block "+k, "block %s: digest %s in one process, %s in the other", k, a.m[k], db)
		}
	}
	ev.Case(common > 0, fmt.Sprintf("cross-process seed=%d checks=%d", ev.Seed(), n), "cross-process")
	ev.ClassN("cross-process-blocks-compared", int64(common))
	ev.ClassN("cross-process-blocks-only-in-one", int64(len(a.m)+len(b.m)-2*common))
	if common*10 < len(a.m)*9 || common == 0 {
		t.Fatalf("harness: only %d of %d/%d blocks were built identically by both processes; the cases are not reproducible enough to compare", common, len(a.m), len(b.m))
	}
}
