package c06

import (
	"math/big"
	"os"
	"strings"
	"testing"

	"github.com/kardiachain/go-kardia/configs"
	"github.com/kardiachain/go-kardia/kvm"
	"github.com/kardiachain/go-kardia/kai/accounts/abi"
	"github.com/kardiachain/go-kardia/lib/common"
	"github.com/kardiachain/go-kardia/mainchain/staking"
	"github.com/kardiachain/go-kardia/types"

	"verifharness/c09/kit"
	"verifharness/internal/ev"
	"verifharness/internal/netsim"
)

func TestMain(m *testing.M) {
	ev.Init("C06")
	rc := m.Run()
	ev.Flush()
	os.Exit(rc)
}

func TestProbe(t *testing.T) {
	netsim.Quiet()
	for _, gal := range []*uint64{nil, new(uint64)} {
		w := kit.NewWorld([]int64{15, 15}, 3, gal)
		a, err := w.NewReplica(0, nil, nil)
		if err != nil {
			t.Fatal(err)
		}
		su, _ := staking.NewSmcStakingUtil()
		vabi, _ := abi.JSON(strings.NewReader(configs.GetContractABIByType(configs.ValidatorContractKey)))
		st, _ := a.StateAt(a.HeadRoot())
		hdr := a.BC.CurrentBlock().Header()
		vcs, err := su.GetAllValContracts(st, hdr, a.BC, kvm.Config{})
		t.Logf("val contracts %x err %v staking %x", vcs, err, su.ContractAddress)
		signer := types.HomesteadSigner{}
		nonces := map[int]uint64{}
		mk := func(ki int, to common.Address, val *big.Int, data []byte) *types.Transaction {
			k := w.Funded[ki]
			tx, err := types.SignTx(signer, types.NewTransaction(nonces[ki], to, val, 5000000, big.NewInt(1), data), k)
			if err != nil {
				t.Fatal(err)
			}
			nonces[ki]++
			return tx
		}
		e24 := new(big.Int).Exp(big.NewInt(10), big.NewInt(24), nil)
		del, _ := vabi.Pack("delegate")
		und, _ := vabi.Pack("undelegateWithAmount", e24)
		start, _ := vabi.Pack("start")
		var name [32]byte
		copy(name[:], "newval")
		cv, err := su.Abi.Pack("createValidator", name, big.NewInt(100000000000000000), big.NewInt(250000000000000000), big.NewInt(50000000000000000))
		if err != nil {
			t.Fatal(err)
		}
		var newVal common.Address
		for h := 1; h <= 6; h++ {
			var txs []*types.Transaction
			switch h {
			case 1:
				txs = append(txs, mk(0, vcs[0], new(big.Int).Mul(e24, big.NewInt(3)), del))
				txs = append(txs, mk(1, su.ContractAddress, new(big.Int).Mul(e24, big.NewInt(20)), cv))
			case 2:
				txs = append(txs, mk(0, vcs[0], big.NewInt(0), und))
				s2, _ := a.StateAt(a.HeadRoot())
				newVal, _ = su.GetValFromOwner(s2, a.BC.CurrentBlock().Header(), a.BC, kvm.Config{}, kit.Addr(w.Funded[1]))
				t.Logf("new validator contract %x", newVal)
				txs = append(txs, mk(1, newVal, big.NewInt(0), start))
			case 4:
				stop, _ := vabi.Pack("stop")
				k := w.ValKeys[0]
				s3, _ := a.StateAt(a.HeadRoot())
				vc, _ := su.GetValFromOwner(s3, a.BC.CurrentBlock().Header(), a.BC, kvm.Config{}, kit.Addr(k))
				tx, _ := types.SignTx(signer, types.NewTransaction(s3.GetNonce(kit.Addr(k)), vc, big.NewInt(0), 5000000, big.NewInt(1), stop), k)
				txs = append(txs, tx)
			}
			e, err := a.Propose(kit.ProposeOpts{Txs: txs, UseTxs: true, Proposer: -1})
			if err != nil {
				t.Fatal(err)
			}
			res, err := a.Apply(e)
			if err != nil {
				t.Fatal(err)
			}
			bi, _ := a.BlockInfo(e)
			var st []uint64
			for _, r := range bi.Receipts {
				st = append(st, r.Status, r.GasUsed)
			}
			var vs []string
			for _, v := range res.Vals {
				vs = append(vs, v.Address.Hex()[:8]+":"+big.NewInt(v.VotingPower).String())
			}
			t.Logf("h%d receipts %v vals %v next=%d", h, st, vs, a.State.NextValidators.Size())
		}
		a.Close()
	}
}
