#!/usr/bin/env python3
"""Regenerates MANIFEST.json from harness/*/check.json (claimed checks) and properties.jsonl (the rest -> not_applicable)."""
import json, os, glob
ROOT = os.path.dirname(os.path.abspath(__file__))
props = [json.loads(l) for l in open(os.path.join(ROOT, "properties.jsonl")) if l.strip()]
checks, claimed = [], set()
reviewed = set(json.load(open(os.path.join(ROOT, "claimed.json"))))  # checks reviewed and run green on the unchanged tree
engines = {}
for p in props:
    pid = p["id"]
    cp = os.path.join(ROOT, "harness", pid.lower(), "check.json")
    if not os.path.exists(cp):
        continue
    c = json.load(open(cp))
    if c.get("unclaimed") or pid not in reviewed:
        continue
    claimed.add(pid)
    eng = c.get("engine", "rapid-library")
    engines.setdefault(eng, []).append(pid)
    checks.append({
        "property_id": pid,
        "quick_cmd": "./verif check %s --tier quick" % pid,
        "thorough_cmd": "./verif check %s --tier thorough" % pid,
        "evidence_file": "evidence/%s.json" % pid,
        "replay_cmd_template": "./verif replay %s {path}" % pid,
        "engine": eng,
        "level_claimed": {"category": c.get("level", "exploration"), "text": c["level_text"], "design_ref": c.get("design_ref", "DESIGN.md section 6, " + pid)},
        "level_note": c["level_note"],
        "technique": c["technique"],
    })
na = []
na_reasons = json.load(open(os.path.join(ROOT, "not_applicable.json"))) if os.path.exists(os.path.join(ROOT, "not_applicable.json")) else {}
for p in props:
    if p["id"] not in claimed:
        na.append({"property_id": p["id"], "reason": na_reasons.get(p["id"], "check not built yet in this round (planned, see DESIGN.md section 6); not claimed until its check runs green on the unchanged tree")})
engine_desc = {
    "rapid-library": ("harness/", "rapid (pgregory.net/rapid v1.3.0) generators and state machines driving go-kardia library packages directly, with independent oracles (reference models, go-ethereum v1.9.15 packages, inverses, metamorphic relations); Go native fuzzing in the thorough tier"),
    "netsim": ("harness/internal/netsim", "deterministic multi-node simulator around the real ConsensusState (harness owns schedule, timeouts, gossip, crashes); rapid draws the schedules"),
}
m = {
    "version": 1,
    "setup_cmd": "./verif setup",
    "hooks": {
        "guard": "verif",
        "enable": "no product hook is needed: unexported entry points are exported by shim files kept in /verif/harness/shims and added to go-kardia packages at build time with `go test -overlay` (files are only ADDED, never replaced); build tag `verif` is reserved and unused",
        "baseline_off_cmd": "cd /repo && go test -mod=mod -vet=off -count=1 -timeout 25m ./...",
        "source_commits": [],
        "add_only": True,
    },
    "engines": [{"name": k, "path": engine_desc.get(k, ("harness/", ""))[0], "serves_properties": v, "kind_free_text": engine_desc.get(k, ("", k))[1]} for k, v in engines.items()],
    "checks": checks,
    "not_applicable": na,
    "notes": "Driver: ./verif (python3 stdlib). Every check rebuilds its test binary from /repo's working tree (go test -c with an overlay that adds shim files). Exit 0 held / 1 VIOLATION / 2 inconclusive. Known findings: KNOWN_FINDINGS.txt. Seeds: VERIF_SEED.",
}
open(os.path.join(ROOT, "MANIFEST.json"), "w").write(json.dumps(m, indent=1) + "\n")
print("claimed:", sorted(claimed), "not claimed:", [x["property_id"] for x in na])
